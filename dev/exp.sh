#!/bin/sh
# re-export SSA into .work/dbg for dev scripts
export GOFLAGS=-mod=mod GOPROXY=off GOSUMDB=off GOTOOLCHAIN=local
W=/verif/.work/dbg; mkdir -p $W
python3 - <<'PY'
import json,os
rep={}
for pkg in sorted(os.listdir('/verif/overlay')):
    d='/verif/overlay/'+pkg
    for f in os.listdir(d):
        if f.endswith('.go'):
            sub='' if pkg=='ivg' else pkg
            rep[os.path.join('/repo',sub,f)]=os.path.join(d,f)
json.dump({'Replace':rep},open('/verif/.work/dbg/ov.json','w'))
PY
/verif/bin/ssaexport -dir /verif/harness -overlay $W/ov.json -out $W/ssa.json -allow 'github.com/reactivego/ivg/...,vph/...,image/color,image,strings,bytes,internal/stringslite,internal/bytealg,io,errors,encoding/binary,encoding/hex,math/bits,unicode/utf8,golang.org/x/image/math/f32' -inits 'github.com/reactivego/ivg/...,vph/...,image/color,errors,io'
