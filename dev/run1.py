import sys, time, os, json
sys.path.insert(0,'/verif/engine')
import ir, symex, stubs, solve, fpops, driver
prog=ir.Program('/verif/.work/dbg/ssa.json')
h=sys.argv[1]
params=json.loads(sys.argv[2]) if len(sys.argv)>2 else {}
presets=json.loads(sys.argv[3]) if len(sys.argv)>3 else {}
ex=symex.Exec(prog, params=params, presets=presets, opts=dict(merge=driver.DEFAULT_MERGE, trace=('-t' in sys.argv)))
ex.setup()
t0=time.time()
fin=ex.run_harness(h)
print('run',time.time()-t0, 'paths',ex.res.paths, ex.res.ended, 'steps',ex.res.steps,'solver calls',ex.res.solver_calls, 'merges', ex.res.merges, ex.res.notes[:5])
for ob in ex.res.obligations[:20]: print(ob.kind, ob.label)
