#!/bin/sh
cd /verif
ev() { timeout 7000 python3 tools/evalrefactor.py $1 $2 --checks=$3 >> .work/ref.log 2>&1; }
for r in r1 r2 r3; do ev refactor-decode-$r /tmp/mut/R1/out/$r C02,C03,C11,C13,C14,C18; done
for r in r1 r2 r3; do ev refactor-encode-$r /tmp/mut/R2/out/$r C01,C08,C09,C10,C17,C07; done
for r in r1 r2 r3; do ev refactor-render-$r /tmp/mut/R3/out/$r C04,C05,C06,C15,C16,C17,C07; done
for r in r1 r2 r3; do ev refactor-root-$r /tmp/mut/R4/out/$r C09,C12,C19,C20,C04,C03; done
echo REFDONE >> .work/ref.log
