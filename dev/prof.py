import sys, time, os, json, cProfile, pstats
sys.path.insert(0,'/verif/engine')
import ir, symex, stubs, solve, fpops, driver
prog=ir.Program(sys.argv[1])
h=sys.argv[2]
params=json.loads(sys.argv[3]) if len(sys.argv)>3 else {}
ex=symex.Exec(prog, params=params, opts=dict(merge=driver.DEFAULT_MERGE))
ex.setup()
t0=time.time()
cProfile.run('fin=ex.run_harness(h)', '/verif/.work/dbg/prof.out')
print('run',time.time()-t0, 'paths',ex.res.paths, ex.res.ended, 'steps',ex.res.steps,'solver calls',ex.res.solver_calls, 'solver time', ex.res.solver_time, ex.res.notes[:5])
p=pstats.Stats('/verif/.work/dbg/prof.out'); p.sort_stats('cumulative').print_stats(35)
