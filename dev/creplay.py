import sys, time, os, json
sys.path.insert(0,'/verif/engine')
import ir, symex, stubs, solve, fpops, driver
prog=ir.Program('/verif/.work/dbg/ssa.json')
h=sys.argv[1]
params=json.loads(sys.argv[2])
vals={k:int(v) for k,v in json.loads(sys.argv[3]).items()}
ex=symex.Exec(prog, params=params, presets=vals, opts=dict(merge=driver.DEFAULT_MERGE, trace=('-t' in sys.argv)))
# make every nondet read its preset
import z3
def mk(bits):
    def f(ex_, st, fr, ins, args):
        k=stubs._key(st, stubs._name(args[0])); return vals.get(k,0) & ((1<<bits)-1)
    return f
def mkf(w):
    def f(ex_, st, fr, ins, args):
        k=stubs._key(st, stubs._name(args[0])); return fpops.fconst_bits(w, vals.get(k,0))
    return f
for n,b in (('U8',8),('U16',16),('U32',32),('U64',64),('I32',32),('I64',64),('Int',64)):
    symex.INTERCEPTS['vph/vp.'+n]=mk(b)
symex.INTERCEPTS['vph/vp.F32']=mkf(32); symex.INTERCEPTS['vph/vp.F64']=mkf(64)
symex.INTERCEPTS['vph/vp.Bool']=lambda ex_,st,fr,ins,args: vals.get(stubs._key(st, stubs._name(args[0])),0)!=0
ex.setup()
fin=ex.run_harness(h)
print('paths',ex.res.paths, ex.res.ended, 'folded', ex.res.folded)
for ob in ex.res.obligations: print('OBLIGATION', ob.kind, ob.label, ob.neg)
