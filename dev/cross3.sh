#!/bin/sh
# cross-evaluate round-3 changes missed by their own check against the checks that should see them
cd /verif
while ! grep -q PASSDONE .work/mut3.log; do sleep 30; done
run() { timeout 4000 python3 tools/evalmut.py $1 /verif/seeded/$1-$2 --checks=$3 >> .work/cross3.log 2>&1; }
run C07 m3 C17
run C09 m3 C01,C09
run C14 m3 C17
run C04 m3 C17
run C02 m3 C02,C04
run C02 m4 C02,C04
run C03 m4 C13
run C04 m4 C09
run C08 m3 C01
run C07 m4 C01
echo CROSSDONE >> .work/cross3.log
