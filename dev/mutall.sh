#!/bin/sh
cd /verif
for p in "$@"; do
  for m in m1 m2; do
    if [ -f /tmp/mut/$p/out/$m/patch.diff ]; then
      timeout 3000 python3 tools/evalmut.py $p /tmp/mut/$p/out/$m >> .work/mut.log 2>&1
    fi
  done
done
echo MUTDONE >> .work/mut.log
