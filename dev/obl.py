# run a harness with presets (choices) and dump/solve its obligations in-process with details
import sys, time, os, json
sys.path.insert(0,'/verif/engine')
import z3
import ir, symex, stubs, solve, fpops, driver
prog=ir.Program('/verif/.work/dbg/ssa.json')
h=sys.argv[1]
params=json.loads(sys.argv[2])
presets=json.loads(sys.argv[3])
fpops.CTX.mode = sys.argv[4] if len(sys.argv)>4 else 'B'
ex=symex.Exec(prog, params=params, presets=presets, opts=dict(merge=driver.DEFAULT_MERGE))
ex.setup()
fin=ex.run_harness(h)
print('paths',ex.res.paths, ex.res.ended, 'folded', ex.res.folded, 'notes', ex.res.notes[:4])
for i,ob in enumerate(ex.res.obligations):
    a=list(ob.pc)+([ob.neg] if ob.neg is not None else [])
    open('/verif/.work/dbg/o%d.smt2'%i,'w').write(solve.to_smt2(a, [k for k,(kind,b,t) in ob.nondet.items() if kind!='real']))
    t0=time.time()
    r=solve.solve(ob.pc, ob.neg, ob.nondet, inproc_ms=20000, ext_s=30)
    print(i, ob.kind, ob.label[:60], r['verdict'], r['solver'], round(time.time()-t0,2), r.get('results'), {k:v for k,v in r['values'].items()} if r['verdict']=='sat' else '')
