#!/bin/sh
# second pass: changes missed (or undecided) in round 3, after engine and harness strengthening
cd /verif
run() { timeout 4000 python3 tools/evalmut.py $1 /verif/seeded/$1-$2 --checks=$3 >> .work/cross4.log 2>&1; }
ref() { timeout 7000 python3 tools/evalrefactor.py $1 $2 --checks=$3 >> .work/cross4.log 2>&1; }
run C02 m3 C02
run C12 m1 C12
run C12 m4 C12
run C12 m3 C12,C18
run C15 m3 C15
run C15 m4 C15
run C18 m3 C18
run C18 m4 C18
run C19 m3 C19
run C11 m3 C11,C18
ref refactor-decode-r1 /tmp/mut/R1/out/r1 C02,C03,C11,C13,C18
ref refactor-decode-r2 /tmp/mut/R1/out/r2 C02
ref refactor-render-r3 /tmp/mut/R3/out/r3 C16
ref refactor-root-r2 /tmp/mut/R4/out/r2 C20
timeout 4000 python3 tools/evalmut.py C14 /tmp/mut/C14/out/m4 >> .work/cross4.log 2>&1
run C20 m3 C20
run C16 m4 C16,C06
run C06 m1 C06
echo CROSS4DONE >> .work/cross4.log
