import sys, time, os, json
sys.path.insert(0,'/verif/engine')
import z3
import ir, symex, stubs, solve, fpops, driver
prog=ir.Program('/verif/.work/dbg/ssa.json')
h=sys.argv[1]
params=json.loads(sys.argv[2]) if len(sys.argv)>2 else {}
ex=symex.Exec(prog, params=params, opts=dict(merge=driver.DEFAULT_MERGE))
ex.setup()
orig=ex.solve_raw
stats=[]
def wrapped(pc, extra):
    t0=time.time(); r=orig(pc, extra); dt=time.time()-t0
    if dt>1.0 and not getattr(ex,'_printed',False):
        ex._printed=True; print('SLOW', extra.sexpr() if extra is not None else None, len(ex.inc_stack))
    stats.append((dt, len(pc), all(ex.is_bv(c) for c in pc) and (extra is None or ex.is_bv(extra)), len(extra.sexpr()) if extra is not None else 0, sum(len(c.sexpr()) for c in pc), r[0]))
    return r
ex.solve_raw=wrapped
fin=ex.run_harness(h)
stats.sort(reverse=True)
print('n',len(stats),'total',sum(s[0] for s in stats))
for s in stats[:15]: print(s)
print('median', stats[len(stats)//2])
