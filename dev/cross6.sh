#!/bin/sh
cd /verif
while ! grep -q CROSS5DONE .work/cross5.log 2>/dev/null; do sleep 20; done
ref() { timeout 7000 python3 tools/evalrefactor.py $1 $2 --checks=$3 >> .work/cross6.log 2>&1; }
ref refactor-render-r2 /tmp/mut/R3/out/r2 C06 &
ref refactor-render-r1 /tmp/mut/R3/out/r1 C06 &
wait
ref refactor-decode-r1 /tmp/mut/R1/out/r1 C02,C11,C18
ref refactor-render-r3 /tmp/mut/R3/out/r3 C16,C06
echo CROSS6DONE >> .work/cross6.log
