#!/bin/sh
cd /verif
cat <<L | xargs -P 3 -I{} sh -c 'set -- {}; timeout 2400 python3 tools/evalmut.py $1 /verif/seeded/$2 --checks=$3 >> .work/cross6.log 2>&1'
C17 C17-m6 C17
C04 C04-m5 C04
C15 C15-m5 C04
C01 C01-m6 C01
C11 C11-m3 C11
C20 C20-m6 C20
C06 C06-m1 C06
L
echo CROSSDONE >> .work/cross6.log
