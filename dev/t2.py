import sys, time, os, json
sys.path.insert(0,'/verif/engine')
import ir, symex, stubs, solve, fpops
prog=ir.Program(sys.argv[1])
ex=symex.Exec(prog, params={'len':0,'hires':0,'shift':0}, opts=dict(max_steps=5000000, trace=('-t' in sys.argv)))
ex.setup()
data=open(sys.argv[2],'rb').read()
ex.presets={'src[%d]'%i:b for i,b in enumerate(data)}
ex.params['len']=len(data)
t0=time.time()
fin=ex.run_harness('vph/selftest.H_Corpus')
print('run',time.time()-t0, 'paths',ex.res.paths, ex.res.ended, 'steps',ex.res.steps,'solver calls',ex.res.solver_calls)
for st in fin:
    print(st.notes)
for ob in ex.res.obligations: print(ob.kind, ob.label)
