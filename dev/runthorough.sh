#!/bin/sh
cd /verif
: > .work/thorough.log
for p in "$@"; do
  s=$(date +%s)
  timeout 5400 ./check $p --tier thorough --strict --no-evidence > .work/tlog_$p 2>&1
  echo "rc=$? $(( $(date +%s) - s ))s $(tail -1 .work/tlog_$p | cut -c1-200)" >> .work/thorough.log
  grep -h "ENGINE-ERROR\|INCONCL\|^VIOLATION\|VACUOUS\|MISMATCH" .work/tlog_$p | cut -c1-250 | sort | uniq -c | head -6 >> .work/thorough.log
done
echo DONE >> .work/thorough.log
