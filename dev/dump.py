import sys, time, os, json
sys.path.insert(0,'/verif/engine')
import ir, symex, stubs, solve, fpops, driver
prog=ir.Program(sys.argv[1])
h=sys.argv[2]
ex=symex.Exec(prog, params={}, opts=dict(merge=driver.DEFAULT_MERGE))
ex.setup()
t0=time.time()
fin=ex.run_harness(h)
print('run',time.time()-t0, 'paths',ex.res.paths, ex.res.ended, 'steps',ex.res.steps,'solver calls',ex.res.solver_calls, ex.res.notes)
for i,ob in enumerate(ex.res.obligations):
    a=list(ob.pc)+([ob.neg] if ob.neg is not None else [])
    txt=solve.to_smt2(a, [])
    open('/verif/.work/dbg/q%d.smt2'%i,'w').write(txt)
    print(i, ob.kind, ob.label, len(txt))
