#!/bin/sh
# run all registered quick checks strictly, one after the other; summary lines to .work/all.log
cd /verif
: > .work/all.log
for p in "$@"; do
  timeout 2400 ./check $p --strict > .work/log_$p 2>&1
  echo "rc=$? $(tail -1 .work/log_$p | cut -c1-200)" >> .work/all.log
  grep -h "ENGINE-ERROR\|INCONCL\|^VIOLATION\|VACUOUS\|MISMATCH" .work/log_$p | cut -c1-250 | head -5 >> .work/all.log
done
echo DONE >> .work/all.log
