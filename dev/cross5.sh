#!/bin/sh
# re-evaluate round-4 changes that were missed: strengthened own check, or a related property's check
cd /verif
cat <<L | xargs -P 2 -I{} sh -c 'set -- {}; timeout 3000 python3 tools/evalmut.py $1 /verif/seeded/$2 --checks=$3 >> .work/cross5.log 2>&1'
C07 C07-m5 C07
C04 C04-m6 C09
C11 C11-m5 C11
C08 C08-m5 C08
C01 C01-m5 C17
C14 C14-m6 C17
C02 C02-m6 C02
C08 C08-m6 C01
C16 C16-m5 C06
C06 C06-m6 C06
C17 C17-m6 C04
L
echo CROSSDONE >> .work/cross5.log
