#!/bin/sh
cd /verif
run() { timeout 4000 python3 tools/evalmut.py $1 /verif/seeded/$1-$2 --checks=$3 >> .work/cross5.log 2>&1; }
run C06 m4 C06 &
run C16 m4 C06 &
wait
run C06 m3 C06 &
run C06 m1 C06 &
wait
echo CROSS5DONE >> .work/cross5.log
