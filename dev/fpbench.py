import sys, time, os, json
sys.path.insert(0,'/verif/engine')
import z3
import ir, symex, stubs, solve, fpops, driver
prog=ir.Program(sys.argv[1])
h=sys.argv[2]
params=json.loads(sys.argv[3]) if len(sys.argv)>3 else {}
ex=symex.Exec(prog, params=params, opts=dict(merge=driver.DEFAULT_MERGE))
ex.setup()
queries=[]
orig=ex.solve_raw
def wrapped(pc, extra):
    t0=time.time(); r=orig(pc, extra); dt=time.time()-t0
    if dt>0.1 and len(queries)<30: queries.append((list(pc), extra, r[0], dt))
    return r
ex.solve_raw=wrapped
fin=ex.run_harness(h)
print('collected', len(queries))
def run(name, mk):
    tot=0; res=[]
    for pc,extra,r0,dt in queries:
        s=mk()
        for c in pc: s.add(c)
        if extra is not None: s.add(extra)
        t0=time.time(); r=s.check(); tot+=time.time()-t0; res.append(str(r))
    print(name, round(tot,2), res[:10])
print('orig', round(sum(q[3] for q in queries),2), [q[2] for q in queries][:10])
run('Solver()', lambda: z3.Solver())
run('SolverFor(QF_FPBV)', lambda: z3.SolverFor('QF_FPBV'))
run('SolverFor(QF_FP)', lambda: z3.SolverFor('QF_FP'))
t=z3.Then('simplify','fpa2bv','simplify','bit-blast','sat')
run('tactic fpa2bv+bitblast+sat', lambda: t.solver())
t2=z3.Then('simplify','propagate-values','fpa2bv','simplify','solve-eqs','bit-blast','aig','sat')
run('tactic2', lambda: t2.solver())
t3=z3.Tactic('qffpbv')
run('qffpbv', lambda: t3.solver())
