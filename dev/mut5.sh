#!/bin/sh
# evaluate round-4 mutants (directories m5/m6) that are complete and not yet evaluated, 3 at a time
cd /verif
list=""
for p in $(ls /tmp/mut | grep -E '^C[0-9]+$'); do
  for m in m5 m6; do
    d=/tmp/mut/$p/out/$m
    if [ -f $d/patch.diff ] && [ -f $d/demo_test.go ] && [ -f $d/README.md ] && [ ! -d /verif/seeded/$p-$m ] && [ ! -f /tmp/mut/$p/out/$m.started ]; then
      touch /tmp/mut/$p/out/$m.started
      list="$list $p:$d"
    fi
  done
done
echo $list | tr ' ' '\n' | grep : | xargs -P 3 -I{} sh -c 'x={}; p=${x%%:*}; d=${x#*:}; timeout 3000 python3 tools/evalmut.py $p $d >> .work/mut5_$p.log 2>&1'
echo PASSDONE >> .work/mut5.log
