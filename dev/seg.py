import sys, time, os, json
sys.path.insert(0,'/verif/engine')
import z3
import ir, symex, stubs, solve, fpops, driver
prog=ir.Program('/verif/.work/dbg/ssa.json')
ex=symex.Exec(prog, params={}, presets={}, opts=dict(merge=driver.DEFAULT_MERGE, feas_timeout_ms=int(sys.argv[1]), concretize_limit=8, max_paths=400))
ex.setup()
t0=time.time()
try:
    fin=ex.run_harness('vph/c06.H_Segments')
    print('paths',ex.res.paths, ex.res.ended, 'folded', ex.res.folded, 'obl', len(ex.res.obligations), 'solver', ex.res.solver_calls, round(ex.res.solver_time,1))
except Exception as e:
    print('ERR', e, 'paths', ex.res.paths, 'solver', ex.res.solver_calls, round(ex.res.solver_time,1))
print(time.time()-t0)
