#!/bin/sh
# usage: runpar.sh <logname> <ids...> : registered quick checks strictly, one after the other
cd /verif
log=.work/$1.log; shift
: > $log
for p in "$@"; do
  timeout 2400 ./check $p --strict > .work/log_$p 2>&1
  echo "rc=$? $(tail -1 .work/log_$p | cut -c1-200)" >> $log
  grep -h "ENGINE-ERROR\|INCONCL\|^VIOLATION\|VACUOUS\|MISMATCH" .work/log_$p | cut -c1-250 | head -5 >> $log
done
echo DONE >> $log
