#!/bin/sh
# evaluate round-3 mutants (directories m3/m4) that are complete and not yet evaluated
cd /verif
for p in $(ls /tmp/mut | grep -E '^C[0-9]+$'); do
  for m in m3 m4; do
    d=/tmp/mut/$p/out/$m
    if [ -f $d/patch.diff ] && [ -f $d/demo_test.go ] && [ -f $d/README.md ] && [ ! -d /verif/seeded/$p-$m ]; then
      timeout 3000 python3 tools/evalmut.py $p $d >> .work/mut3.log 2>&1
    fi
  done
done
echo PASSDONE >> .work/mut3.log
