#!/usr/bin/env python3
"""Evaluate seeded changes produced by independent sub-agents: confirm that each
compiles, passes the repository's own suite, fails its demonstration (and that the
demonstration passes without it), then run our checks against it.
usage: evalmut.py <ID> <dir with patch.diff demo_test.go README.md> [--checks C01,C08] [--tier quick]"""
import json
import os
import re
import shutil
import subprocess
import sys
import time

WT = None
ENV = dict(os.environ, GOFLAGS='-mod=mod', GOPROXY='off', GOSUMDB='off', GOTOOLCHAIN='local')


def sh(cmd, cwd=None, timeout=3600):
    r = subprocess.run(cmd, shell=True, cwd=cwd, env=ENV, capture_output=True, text=True, timeout=timeout)
    return r.returncode, r.stdout + r.stderr


def readme_of(d):
    f = os.path.join(d, 'README.md')
    if os.path.exists(f):
        return open(f).read()
    return json.load(open(os.path.join(d, 'meta.json'))).get('what_it_needs', '')


def main():
    pid, d = sys.argv[1], sys.argv[2].rstrip('/')
    checks = [pid]
    tier = 'quick'
    for a in sys.argv[3:]:
        if a.startswith('--checks='):
            checks = a.split('=')[1].split(',')
        if a.startswith('--tier='):
            tier = a.split('=')[1]
    name = '%s-%s' % (pid, os.path.basename(d))
    if os.path.dirname(os.path.abspath(d)) == '/verif/seeded':   # re-evaluate a kept change (other checks)
        name = os.path.basename(d)
    patch = os.path.join(d, 'patch.diff')
    demo = os.path.join(d, 'demo_test.go')
    src = open(demo).read()
    m = re.search(r'^package\s+(\w+)', src, re.M)
    pkgname = m.group(1)
    base = pkgname[:-5] if pkgname.endswith('_test') else pkgname
    pkgdir = {'ivg': '.', 'decode': 'decode', 'encode': 'encode', 'render': 'render', 'generate': 'generate', 'mdicons': 'mdicons',
              'vec': 'raster/vec', 'raster': 'raster'}.get(base, base)
    meta = dict(id=name, property=pid, package_of_demo=pkgdir, readme=readme_of(d))
    global WT
    WT = '/tmp/eval/' + name
    sh('git -C /repo worktree remove --force %s' % WT)
    rc, out = sh('git -C /repo worktree add -q --detach %s HEAD' % WT)
    if rc != 0:
        print('cannot create worktree', out)
        sys.exit(2)
    dst = os.path.join(WT, pkgdir, 'zz_demo_test.go')
    try:
        # unpatched: demo passes
        shutil.copy(demo, dst)
        rc, out = sh('go test -vet=off -count=1 -run TestDemo ./%s/' % pkgdir, WT)
        meta['demo_passes_unpatched'] = rc == 0
        os.remove(dst)
        rc, out = sh('git apply %s' % patch, WT)
        if rc != 0:
            print('patch does not apply', out)
            meta['applies'] = False
            return finish(meta, name, d)
        meta['applies'] = True
        rc, out = sh('go build ./... && go test -vet=off -count=1 ./...', WT)
        meta['suite_passes_patched'] = rc == 0
        shutil.copy(demo, dst)
        rc, out = sh('go test -vet=off -count=1 -run TestDemo ./%s/' % pkgdir, WT)
        meta['demo_fails_patched'] = rc != 0
        meta['demo_output'] = out[-1500:]
        os.remove(dst)
        meta['checks'] = {}
        for c in checks:
            t0 = time.time()
            rc, out = sh('VERIF_REPO=%s ./check %s --tier %s --no-evidence' % (WT, c, tier), '/verif', timeout=5400)
            viol = [l for l in out.split('\n') if l.startswith('VIOLATION') or l.startswith('  harness')]
            meta['checks'][c] = dict(rc=rc, wall_s=round(time.time() - t0, 1), tier=tier, violations=viol[:6],
                                     summary=[l for l in out.split('\n') if l.startswith(c + ' tier=')][-1:],
                                     other=[l[:300] for l in out.split('\n') if l.startswith(('ENGINE', 'INCONCLUSIVE', 'VACUOUS'))][:5])
    finally:
        if os.path.exists(dst):
            os.remove(dst)
        sh('git -C /repo worktree remove --force %s' % WT)
    finish(meta, name, d)


def finish(meta, name, d):
    out = os.path.join('/verif/seeded', name)
    os.makedirs(out, exist_ok=True)
    for f in ('patch.diff', 'demo_test.go'):
        if os.path.abspath(d) != os.path.abspath(out):
            shutil.copy(os.path.join(d, f), os.path.join(out, f))
    readme = meta.pop('readme')
    meta['what_it_needs'] = readme[:2500]
    old = os.path.join(out, 'meta.json')
    if os.path.exists(old):          # keep the results of checks evaluated earlier
        prev = json.load(open(old)).get('checks', {})
        prev.update(meta.get('checks', {}))
        meta['checks'] = prev
    with open(os.path.join(out, 'meta.json'), 'w') as f:
        json.dump(meta, f, indent=1)
    ok = meta.get('applies') and meta.get('suite_passes_patched') and meta.get('demo_fails_patched') and meta.get('demo_passes_unpatched')
    det = {c: v['rc'] for c, v in meta.get('checks', {}).items()}
    print('%s valid=%s detected=%s' % (name, bool(ok), det))


if __name__ == '__main__':
    main()
