// ssaexport loads the harness module (which replaces github.com/reactivego/ivg
// by /repo's working tree), injects overlay wrapper files, builds go/ssa for the
// whole program and writes the functions of an allow-list of packages as JSON
// for the Python symbolic executor.
//
// Nothing is cached between runs: every check invocation re-exports from the
// current source.
package main

import (
	"crypto/sha256"
	"encoding/hex"
	"encoding/json"
	"flag"
	"fmt"
	"go/constant"
	"go/token"
	"go/types"
	"math"
	"os"
	"path/filepath"
	"sort"
	"strings"

	"golang.org/x/tools/go/packages"
	"golang.org/x/tools/go/ssa"
	"golang.org/x/tools/go/ssa/ssautil"
	"golang.org/x/tools/go/types/typeutil"
)

type J = map[string]interface{}

type exporter struct {
	prog     *ssa.Program
	fset     *token.FileSet
	allow    []string // package path prefixes whose functions are exported
	typeIDs  typeutil.Map
	types    []J
	funcIDs  map[*ssa.Function]string
	idUsed   map[string]int
	queue    []*ssa.Function
	funcs    map[string]J
	globals  map[string]J
	named    map[*types.Named]bool // method sets to export
	msDone   map[int]bool
	debug    map[string]bool
	opaqueID int
}

func (e *exporter) allowedPath(p string) bool {
	for _, a := range e.allow {
		if strings.HasSuffix(a, "/...") {
			b := strings.TrimSuffix(a, "/...")
			if p == b || strings.HasPrefix(p, b+"/") {
				return true
			}
		} else if p == a {
			return true
		}
	}
	return false
}

func fnPkgPath(fn *ssa.Function) string {
	if fn.Pkg != nil {
		return fn.Pkg.Pkg.Path()
	}
	if o := fn.Object(); o != nil && o.Pkg() != nil {
		return o.Pkg().Path()
	}
	if fn.Parent() != nil {
		return fnPkgPath(fn.Parent())
	}
	// synthetic wrappers: use receiver's named type package if any
	if fn.Signature != nil && fn.Signature.Recv() != nil {
		t := fn.Signature.Recv().Type()
		if p, ok := t.(*types.Pointer); ok {
			t = p.Elem()
		}
		if n, ok := types.Unalias(t).(*types.Named); ok && n.Obj().Pkg() != nil {
			return n.Obj().Pkg().Path()
		}
	}
	return ""
}

func (e *exporter) funcID(fn *ssa.Function) string {
	if id, ok := e.funcIDs[fn]; ok {
		return id
	}
	base := fn.String()
	n := e.idUsed[base]
	e.idUsed[base] = n + 1
	id := base
	if n > 0 {
		id = fmt.Sprintf("%s#%d", base, n)
	}
	e.funcIDs[fn] = id
	e.queue = append(e.queue, fn)
	return id
}

func (e *exporter) typeID(t types.Type) int {
	t = types.Unalias(t)
	switch t.(type) {
	case *types.Basic, *types.Named, *types.Pointer, *types.Slice, *types.Array, *types.Struct, *types.Tuple, *types.Signature, *types.Interface, *types.Map, *types.Chan, *types.TypeParam:
	default:
		// ssa.opaqueType (range iterators): one shared id
		if e.opaqueID < 0 {
			e.opaqueID = len(e.types)
			e.types = append(e.types, J{"k": "opaque", "s": t.String()})
		}
		return e.opaqueID
	}
	if v := e.typeIDs.At(t); v != nil {
		return v.(int)
	}
	id := len(e.types)
	e.typeIDs.Set(t, id)
	e.types = append(e.types, nil)
	j := J{"s": t.String()}
	switch t := t.(type) {
	case *types.Basic:
		j["k"] = "basic"
		j["name"] = t.Name()
		info := t.Info()
		bits := 0
		switch t.Kind() {
		case types.Bool, types.UntypedBool:
			bits = 1
		case types.Int8, types.Uint8:
			bits = 8
		case types.Int16, types.Uint16:
			bits = 16
		case types.Int32, types.Uint32, types.Float32, types.UntypedRune:
			bits = 32
		case types.Int, types.Uint, types.Int64, types.Uint64, types.Uintptr, types.Float64, types.UntypedInt, types.UntypedFloat:
			bits = 64
		case types.Complex64:
			bits = 64
		case types.Complex128:
			bits = 128
		}
		j["bits"] = bits
		j["int"] = info&types.IsInteger != 0
		j["unsigned"] = info&types.IsUnsigned != 0
		j["float"] = info&types.IsFloat != 0
		j["bool"] = info&types.IsBoolean != 0
		j["string"] = info&types.IsString != 0
		j["unsafeptr"] = t.Kind() == types.UnsafePointer
	case *types.Named:
		j["k"] = "named"
		name := t.Obj().Name()
		if t.Obj().Pkg() != nil {
			name = t.Obj().Pkg().Path() + "." + name
		}
		j["name"] = name
		j["under"] = e.typeID(t.Underlying())
		e.named[t] = true
	case *types.Pointer:
		j["k"] = "ptr"
		j["elem"] = e.typeID(t.Elem())
	case *types.Slice:
		j["k"] = "slice"
		j["elem"] = e.typeID(t.Elem())
	case *types.Array:
		j["k"] = "array"
		j["elem"] = e.typeID(t.Elem())
		j["len"] = t.Len()
	case *types.Struct:
		j["k"] = "struct"
		var fs []J
		for i := 0; i < t.NumFields(); i++ {
			f := t.Field(i)
			fs = append(fs, J{"name": f.Name(), "t": e.typeID(f.Type()), "emb": f.Embedded()})
		}
		j["fields"] = fs
	case *types.Tuple:
		j["k"] = "tuple"
		var es []int
		for i := 0; i < t.Len(); i++ {
			es = append(es, e.typeID(t.At(i).Type()))
		}
		j["elems"] = es
	case *types.Signature:
		j["k"] = "sig"
		var ps, rs []int
		for i := 0; i < t.Params().Len(); i++ {
			ps = append(ps, e.typeID(t.Params().At(i).Type()))
		}
		for i := 0; i < t.Results().Len(); i++ {
			rs = append(rs, e.typeID(t.Results().At(i).Type()))
		}
		j["params"] = ps
		j["results"] = rs
		j["variadic"] = t.Variadic()
	case *types.Interface:
		j["k"] = "iface"
		var ms []string
		for i := 0; i < t.NumMethods(); i++ {
			ms = append(ms, t.Method(i).Name())
		}
		sort.Strings(ms)
		j["methods"] = ms
	case *types.Map:
		j["k"] = "map"
		j["key"] = e.typeID(t.Key())
		j["elem"] = e.typeID(t.Elem())
	case *types.Chan:
		j["k"] = "chan"
		j["elem"] = e.typeID(t.Elem())
	case *types.TypeParam:
		j["k"] = "typeparam"
	default:
		j["k"] = "other"
	}
	e.types[id] = j
	return id
}

// methodSets exports, for type t (named or pointer to named), its method set
// as name -> function id, if t lives in an allowed package.
func (e *exporter) methodSet(t types.Type) {
	id := e.typeID(t)
	if e.msDone[id] {
		return
	}
	e.msDone[id] = true
	ms := e.prog.MethodSets.MethodSet(t)
	m := J{}
	for i := 0; i < ms.Len(); i++ {
		sel := ms.At(i)
		fn := e.prog.MethodValue(sel)
		if fn == nil {
			continue // abstract (interface) method
		}
		pp := fnPkgPath(fn)
		if e.allowedPath(pp) {
			m[sel.Obj().Name()] = e.funcID(fn)
		} else {
			m[sel.Obj().Name()] = "extern:" + fn.String()
		}
	}
	e.types[id]["mset"] = m
}

func f32bits(v constant.Value) uint32 {
	f, _ := constant.Float32Val(constant.ToFloat(v))
	return math.Float32bits(f)
}
func f64bits(v constant.Value) uint64 {
	f, _ := constant.Float64Val(constant.ToFloat(v))
	return math.Float64bits(f)
}

func (e *exporter) operand(v ssa.Value) interface{} {
	switch v := v.(type) {
	case nil:
		return nil
	case *ssa.Const:
		t := v.Type()
		j := J{"k": "const", "t": e.typeID(t)}
		if v.Value == nil {
			j["zero"] = true
			return j
		}
		switch u := t.Underlying().(type) {
		case *types.Basic:
			info := u.Info()
			switch {
			case info&types.IsBoolean != 0:
				j["v"] = constant.BoolVal(v.Value)
			case info&types.IsString != 0:
				s := constant.StringVal(v.Value)
				bs := make([]int, len(s))
				for i := 0; i < len(s); i++ {
					bs[i] = int(s[i])
				}
				j["str"] = bs
			case info&types.IsInteger != 0:
				j["v"] = constant.ToInt(v.Value).ExactString()
			case info&types.IsFloat != 0:
				if u.Kind() == types.Float32 {
					j["fbits"] = fmt.Sprintf("%d", f32bits(v.Value))
				} else {
					j["fbits"] = fmt.Sprintf("%d", f64bits(v.Value))
				}
			default:
				j["unsupported"] = v.String()
			}
		default:
			j["unsupported"] = v.String()
		}
		return j
	case *ssa.Global:
		e.addGlobal(v)
		return J{"k": "global", "n": globalName(v)}
	case *ssa.Function:
		pp := fnPkgPath(v)
		if e.allowedPath(pp) {
			return J{"k": "func", "id": e.funcID(v), "t": e.typeID(v.Type())}
		}
		return J{"k": "func", "id": "extern:" + v.String(), "t": e.typeID(v.Type())}
	case *ssa.Builtin:
		return J{"k": "builtin", "n": v.Name()}
	case *ssa.Parameter:
		for i, p := range v.Parent().Params {
			if p == v {
				return J{"k": "reg", "n": fmt.Sprintf("p%d", i)}
			}
		}
		panic("param not found")
	case *ssa.FreeVar:
		for i, p := range v.Parent().FreeVars {
			if p == v {
				return J{"k": "reg", "n": fmt.Sprintf("fv%d", i)}
			}
		}
		panic("freevar not found")
	default:
		return J{"k": "reg", "n": v.Name()}
	}
}

func globalName(g *ssa.Global) string {
	return g.Pkg.Pkg.Path() + "." + g.Name()
}

func (e *exporter) addGlobal(g *ssa.Global) {
	n := globalName(g)
	if _, ok := e.globals[n]; ok {
		return
	}
	// g.Type() is pointer to the variable's type
	e.globals[n] = J{"t": e.typeID(g.Type().(*types.Pointer).Elem()), "pkg": g.Pkg.Pkg.Path()}
}

func (e *exporter) callCommon(c *ssa.CallCommon) J {
	j := J{}
	var args []interface{}
	for _, a := range c.Args {
		args = append(args, e.operand(a))
	}
	j["args"] = args
	if c.IsInvoke() {
		j["mode"] = "invoke"
		j["recv"] = e.operand(c.Value)
		j["method"] = c.Method.Name()
		j["recvt"] = e.typeID(c.Value.Type())
		return j
	}
	switch v := c.Value.(type) {
	case *ssa.Function:
		j["mode"] = "static"
		j["fn"] = e.operand(v)
		j["name"] = v.String()
	case *ssa.Builtin:
		j["mode"] = "builtin"
		j["name"] = v.Name()
	default:
		j["mode"] = "dynamic"
		j["fn"] = e.operand(v)
	}
	var ats []int
	for _, a := range c.Args {
		ats = append(ats, e.typeID(a.Type()))
	}
	j["argt"] = ats
	return j
}

func (e *exporter) instr(in ssa.Instruction) J {
	j := J{}
	if v, ok := in.(ssa.Value); ok {
		j["r"] = v.Name()
		j["t"] = e.typeID(v.Type())
	}
	if p := in.Pos(); p.IsValid() {
		j["line"] = e.fset.Position(p).Line
	}
	switch in := in.(type) {
	case *ssa.Alloc:
		j["op"] = "Alloc"
		j["heap"] = in.Heap
		j["elem"] = e.typeID(in.Type().(*types.Pointer).Elem())
		j["comment"] = in.Comment
	case *ssa.BinOp:
		j["op"] = "BinOp"
		j["tok"] = in.Op.String()
		j["x"] = e.operand(in.X)
		j["y"] = e.operand(in.Y)
		j["xt"] = e.typeID(in.X.Type())
		j["yt"] = e.typeID(in.Y.Type())
	case *ssa.UnOp:
		j["op"] = "UnOp"
		j["tok"] = in.Op.String()
		j["x"] = e.operand(in.X)
		j["xt"] = e.typeID(in.X.Type())
		j["commaok"] = in.CommaOk
	case *ssa.Call:
		j["op"] = "Call"
		j["call"] = e.callCommon(&in.Call)
	case *ssa.Defer:
		j["op"] = "Defer"
		j["call"] = e.callCommon(&in.Call)
	case *ssa.Go:
		j["op"] = "Go"
		j["call"] = e.callCommon(&in.Call)
	case *ssa.ChangeInterface:
		j["op"] = "ChangeInterface"
		j["x"] = e.operand(in.X)
	case *ssa.ChangeType:
		j["op"] = "ChangeType"
		j["x"] = e.operand(in.X)
	case *ssa.Convert:
		j["op"] = "Convert"
		j["x"] = e.operand(in.X)
		j["xt"] = e.typeID(in.X.Type())
	case *ssa.MultiConvert:
		j["op"] = "MultiConvert"
		j["x"] = e.operand(in.X)
		j["xt"] = e.typeID(in.X.Type())
	case *ssa.SliceToArrayPointer:
		j["op"] = "SliceToArrayPointer"
		j["x"] = e.operand(in.X)
	case *ssa.DebugRef:
		j["op"] = "DebugRef"
		j["x"] = e.operand(in.X)
		j["addr"] = in.IsAddr
		if id, ok := in.Expr.(interface{ String() string }); ok {
			_ = id
		}
		j["expr"] = types.ExprString(in.Expr)
	case *ssa.Extract:
		j["op"] = "Extract"
		j["x"] = e.operand(in.Tuple)
		j["i"] = in.Index
	case *ssa.Field:
		j["op"] = "Field"
		j["x"] = e.operand(in.X)
		j["i"] = in.Field
		j["xt"] = e.typeID(in.X.Type())
	case *ssa.FieldAddr:
		j["op"] = "FieldAddr"
		j["x"] = e.operand(in.X)
		j["i"] = in.Field
		j["st"] = e.typeID(in.X.Type().Underlying().(*types.Pointer).Elem())
	case *ssa.If:
		j["op"] = "If"
		j["x"] = e.operand(in.Cond)
	case *ssa.Index:
		j["op"] = "Index"
		j["x"] = e.operand(in.X)
		j["i"] = e.operand(in.Index)
		j["xt"] = e.typeID(in.X.Type())
		j["it"] = e.typeID(in.Index.Type())
	case *ssa.IndexAddr:
		j["op"] = "IndexAddr"
		j["x"] = e.operand(in.X)
		j["i"] = e.operand(in.Index)
		j["xt"] = e.typeID(in.X.Type())
		j["it"] = e.typeID(in.Index.Type())
	case *ssa.Jump:
		j["op"] = "Jump"
	case *ssa.Lookup:
		j["op"] = "Lookup"
		j["x"] = e.operand(in.X)
		j["i"] = e.operand(in.Index)
		j["xt"] = e.typeID(in.X.Type())
		j["commaok"] = in.CommaOk
	case *ssa.MakeChan:
		j["op"] = "MakeChan"
	case *ssa.MakeClosure:
		j["op"] = "MakeClosure"
		j["fn"] = e.operand(in.Fn)
		var bs []interface{}
		for _, b := range in.Bindings {
			bs = append(bs, e.operand(b))
		}
		j["bindings"] = bs
	case *ssa.MakeInterface:
		j["op"] = "MakeInterface"
		j["x"] = e.operand(in.X)
		j["xt"] = e.typeID(in.X.Type())
		e.noteDynType(in.X.Type())
	case *ssa.MakeMap:
		j["op"] = "MakeMap"
	case *ssa.MakeSlice:
		j["op"] = "MakeSlice"
		j["len"] = e.operand(in.Len)
		j["cap"] = e.operand(in.Cap)
	case *ssa.MapUpdate:
		j["op"] = "MapUpdate"
		j["m"] = e.operand(in.Map)
		j["key"] = e.operand(in.Key)
		j["val"] = e.operand(in.Value)
	case *ssa.Next:
		j["op"] = "Next"
		j["x"] = e.operand(in.Iter)
		j["isstring"] = in.IsString
	case *ssa.Panic:
		j["op"] = "Panic"
		j["x"] = e.operand(in.X)
	case *ssa.Phi:
		j["op"] = "Phi"
		var es []interface{}
		for _, ed := range in.Edges {
			es = append(es, e.operand(ed))
		}
		j["edges"] = es
		j["comment"] = in.Comment
	case *ssa.Range:
		j["op"] = "Range"
		j["x"] = e.operand(in.X)
		j["xt"] = e.typeID(in.X.Type())
	case *ssa.Return:
		j["op"] = "Return"
		var rs []interface{}
		for _, r := range in.Results {
			rs = append(rs, e.operand(r))
		}
		j["results"] = rs
	case *ssa.RunDefers:
		j["op"] = "RunDefers"
	case *ssa.Select:
		j["op"] = "Select"
	case *ssa.Send:
		j["op"] = "Send"
	case *ssa.Slice:
		j["op"] = "Slice"
		j["x"] = e.operand(in.X)
		j["xt"] = e.typeID(in.X.Type())
		j["low"] = e.operand(in.Low)
		j["high"] = e.operand(in.High)
		j["max"] = e.operand(in.Max)
		its := []interface{}{nil, nil, nil}
		for i, v := range []ssa.Value{in.Low, in.High, in.Max} {
			if v != nil {
				its[i] = e.typeID(v.Type())
			}
		}
		j["its"] = its
	case *ssa.Store:
		j["op"] = "Store"
		j["addr"] = e.operand(in.Addr)
		j["val"] = e.operand(in.Val)
	case *ssa.TypeAssert:
		j["op"] = "TypeAssert"
		j["x"] = e.operand(in.X)
		j["at"] = e.typeID(in.AssertedType)
		j["commaok"] = in.CommaOk
		e.noteDynType(in.AssertedType)
	default:
		j["op"] = fmt.Sprintf("Unknown:%T", in)
	}
	return j
}

func (e *exporter) noteDynType(t types.Type) {
	t = types.Unalias(t)
	if _, ok := t.Underlying().(*types.Interface); ok {
		return
	}
	e.methodSet(t)
}

func (e *exporter) exportFunc(fn *ssa.Function) {
	id := e.funcIDs[fn]
	j := J{"name": fn.String(), "pkg": fnPkgPath(fn), "synthetic": fn.Synthetic, "sig": e.typeID(fn.Signature)}
	if p := fn.Pos(); p.IsValid() {
		pos := e.fset.Position(p)
		j["pos"] = fmt.Sprintf("%s:%d", pos.Filename, pos.Line)
	}
	var pts []int
	for _, p := range fn.Params {
		pts = append(pts, e.typeID(p.Type()))
	}
	j["params"] = pts
	var fvs []int
	for _, p := range fn.FreeVars {
		fvs = append(fvs, e.typeID(p.Type()))
	}
	j["freevars"] = fvs
	if fn.Blocks == nil {
		j["extern"] = true
		e.funcs[id] = j
		return
	}
	var sb strings.Builder
	fn.WriteTo(&sb)
	h := sha256.Sum256([]byte(sb.String()))
	j["hash"] = hex.EncodeToString(h[:8])
	var blocks []J
	ninstr := 0
	for _, b := range fn.Blocks {
		bj := J{}
		var succs, preds []int
		for _, s := range b.Succs {
			succs = append(succs, s.Index)
		}
		for _, p := range b.Preds {
			preds = append(preds, p.Index)
		}
		bj["succs"] = succs
		bj["preds"] = preds
		var ins []J
		for _, in := range b.Instrs {
			ins = append(ins, e.instr(in))
			ninstr++
		}
		bj["instrs"] = ins
		blocks = append(blocks, bj)
	}
	j["blocks"] = blocks
	j["ninstr"] = ninstr
	if fn.Recover != nil {
		j["recover"] = fn.Recover.Index
	}
	e.funcs[id] = j
}

func main() {
	dir := flag.String("dir", ".", "harness module directory")
	overlayFile := flag.String("overlay", "", "JSON file {\"Replace\": {virtual path: real path}} (same format as go build -overlay)")
	out := flag.String("out", "ssa.json", "output file")
	allow := flag.String("allow", "", "comma separated package paths (suffix /... allowed) whose functions are exported")
	inits := flag.String("inits", "", "comma separated package path patterns whose init functions the executor runs")
	debugPkgs := flag.String("debug", "", "comma separated package paths built with ssa.GlobalDebug")
	modfile := flag.String("modfile", "", "alternative go.mod (go build -modfile) for the harness module")
	pkgPats := flag.String("pkgs", "./...", "comma separated package patterns to load (relative to -dir)")
	flag.Parse()

	cfg := &packages.Config{
		Mode:  packages.LoadAllSyntax,
		Dir:   *dir,
		Tests: false,
		Env:   append(os.Environ(), "GOFLAGS=-mod=mod", "GOPROXY=off", "GOSUMDB=off", "GOTOOLCHAIN=local"),
	}
	if *modfile != "" {
		cfg.BuildFlags = append(cfg.BuildFlags, "-modfile="+*modfile)
	}
	if *overlayFile != "" {
		data, err := os.ReadFile(*overlayFile)
		if err != nil {
			fatal(err)
		}
		var ov struct{ Replace map[string]string }
		if err := json.Unmarshal(data, &ov); err != nil {
			fatal(err)
		}
		cfg.Overlay = map[string][]byte{}
		for virt, real := range ov.Replace {
			b, err := os.ReadFile(real)
			if err != nil {
				fatal(err)
			}
			cfg.Overlay[virt] = b
		}
	}
	initial, err := packages.Load(cfg, strings.Split(*pkgPats, ",")...)
	if err != nil {
		fatal(err)
	}
	nerr := 0
	packages.Visit(initial, nil, func(p *packages.Package) {
		for _, e := range p.Errors {
			fmt.Fprintf(os.Stderr, "load error: %s: %v\n", p.PkgPath, e)
			nerr++
		}
	})
	if nerr > 0 {
		os.Exit(3)
	}
	prog, pkgs := ssautil.AllPackages(initial, ssa.BuilderMode(0))
	_ = pkgs
	dbg := map[string]bool{}
	for _, p := range strings.Split(*debugPkgs, ",") {
		if p != "" {
			dbg[p] = true
		}
	}
	for _, p := range prog.AllPackages() {
		if dbg[p.Pkg.Path()] {
			p.SetDebugMode(true)
		}
	}
	prog.Build()

	e := &exporter{
		prog:     prog,
		fset:     prog.Fset,
		allow:    strings.Split(*allow, ","),
		funcIDs:  map[*ssa.Function]string{},
		idUsed:   map[string]int{},
		funcs:    map[string]J{},
		globals:  map[string]J{},
		named:    map[*types.Named]bool{},
		msDone:   map[int]bool{},
		opaqueID: -1,
	}
	initPats := strings.Split(*inits, ",")
	e2 := &exporter{allow: initPats}
	var initList []string
	// roots: all member functions, methods and init of allowed packages
	allPkgs := prog.AllPackages()
	sort.Slice(allPkgs, func(i, j int) bool { return allPkgs[i].Pkg.Path() < allPkgs[j].Pkg.Path() })
	pkgFiles := J{}
	for _, p := range allPkgs {
		if !e.allowedPath(p.Pkg.Path()) {
			continue
		}
		var names []string
		for n := range p.Members {
			names = append(names, n)
		}
		sort.Strings(names)
		for _, n := range names {
			switch m := p.Members[n].(type) {
			case *ssa.Function:
				e.funcID(m)
			case *ssa.Global:
				e.addGlobal(m)
			case *ssa.Type:
				t := m.Type()
				if nt, ok := t.(*types.Named); ok && nt.TypeParams().Len() == 0 {
					e.typeID(nt)
					if _, isIface := nt.Underlying().(*types.Interface); !isIface {
						e.methodSet(nt)
						e.methodSet(types.NewPointer(nt))
					}
				}
			}
		}
	}
	// init order: dependency order (imports first)
	seen := map[*types.Package]bool{}
	var visit func(p *types.Package)
	visit = func(p *types.Package) {
		if seen[p] {
			return
		}
		seen[p] = true
		imps := p.Imports()
		sort.Slice(imps, func(i, j int) bool { return imps[i].Path() < imps[j].Path() })
		for _, i := range imps {
			visit(i)
		}
		if e2.allowedPath(p.Path()) && e.allowedPath(p.Path()) {
			sp := prog.Package(p)
			if sp != nil {
				if f := sp.Func("init"); f != nil {
					initList = append(initList, e.funcID(f))
				}
			}
		}
	}
	for _, p := range allPkgs {
		visit(p.Pkg)
	}
	for len(e.queue) > 0 {
		fn := e.queue[0]
		e.queue = e.queue[1:]
		e.exportFunc(fn)
	}
	// method sets for any named types discovered late (loop until stable)
	for {
		before := len(e.funcs)
		var nts []*types.Named
		for nt := range e.named {
			nts = append(nts, nt)
		}
		for _, nt := range nts {
			if nt.Obj().Pkg() == nil || !e.allowedPath(nt.Obj().Pkg().Path()) || nt.TypeParams().Len() != 0 {
				continue
			}
			if _, isIface := nt.Underlying().(*types.Interface); isIface {
				continue
			}
			e.methodSet(nt)
			e.methodSet(types.NewPointer(nt))
		}
		for len(e.queue) > 0 {
			fn := e.queue[0]
			e.queue = e.queue[1:]
			e.exportFunc(fn)
		}
		if len(e.funcs) == before {
			break
		}
	}
	for _, p := range initial {
		var fs []string
		for _, f := range p.GoFiles {
			fs = append(fs, f)
		}
		pkgFiles[p.PkgPath] = fs
	}
	outJ := J{
		"types":   e.types,
		"funcs":   e.funcs,
		"globals": e.globals,
		"inits":   initList,
		"pkgs":    pkgFiles,
	}
	if err := os.MkdirAll(filepath.Dir(*out), 0o755); err != nil {
		fatal(err)
	}
	f, err := os.Create(*out)
	if err != nil {
		fatal(err)
	}
	enc := json.NewEncoder(f)
	if err := enc.Encode(outJ); err != nil {
		fatal(err)
	}
	f.Close()
	ni := 0
	for _, fj := range e.funcs {
		if n, ok := fj["ninstr"].(int); ok {
			ni += n
		}
	}
	fmt.Fprintf(os.Stderr, "ssaexport: %d funcs, %d instrs, %d types, %d globals\n", len(e.funcs), ni, len(e.types), len(e.globals))
}

func fatal(err error) {
	fmt.Fprintln(os.Stderr, "ssaexport:", err)
	os.Exit(3)
}
