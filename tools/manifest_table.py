"""Per-property registration data for MANIFEST.json (edited by hand)."""

FIX_COMMITS = ['6ee40fa', 'ae949d4', 'a7cfa4b', '07ea7f8', 'a376616', 'dc7ab2b', 'd6f70b0', '0b33ab6', 'e75fe18', 'e9d82f2']

NOTES = ('All checks are bounded symbolic model checking of the real code (go/ssa of /repo working tree, regenerated on every run). '
         'Exit 0 = every obligation within the registered bounds was discharged or is listed as inconclusive in evidence; '
         'exit 1 = a natively reproduced, unlisted violation; exit 2 = infrastructure failure (no VIOLATION line). See DESIGN.md.')

CHECKS = {
    'C02': dict(
        text='Bounded symbolic execution of the real decoder on fully symbolic byte windows: every index, slice bound, nil dereference, '
             'division and explicit panic on every feasible path is an obligation, the input slice is a read-only region, and the '
             'structural claims (first call Reset, >=1 byte per delivered call, prefix-closedness, DecodeError) are asserted per path. '
             'Right level: safety of a parser over all inputs up to a length bound is exactly what bounded model checking decides.',
        note='Bounds: windows/streams of the lengths stated in evidence.bounds; longer inputs only through the per-step lemma. '
             'Trusted: executor, solvers; fmt and bytes.Buffer are stubs (no-op recorders); rasteriser is a recording stub.',
    ),
    'C03': dict(
        text='Differential symbolic execution: the real decoder and an independent reference parser written from spec/iconvg-spec-v0.md '
             'run on the same symbolic bytes; accept/reject, bytes consumed, next mode and every delivered operand (bit level) must agree '
             'for every byte pattern within the window. Right level: grammar conformance is a for-all-inputs equivalence.',
        note='Bounds: one instruction within L bytes, whole streams of 4+L bytes (evidence.bounds). Streams whose metadata chunks repeat or '
             'decrease MIDs are a stated do-not-care region. Trusted: executor, solvers, the reference parser (harness/ref).',
    ),
    'C09': dict(
        text='Bit-vector symbolic execution of colour codecs, Encoder.SetCReg, the suggested-palette writer/reader and Color.Resolve over all '
             'byte patterns / all 2^32 RGBA values / all (t,c0,c1) with fully symbolic palette and registers; blend decided as three chained lemmas. '
             'Right level: tables and arithmetic on bytes with rare failing inputs (found: 1-byte palette form for translucent colours).',
        note='Bounds: suggested palettes with n explicit symbolic entries (quick 2, thorough 4). Premultiplication lemma needs cvc5 --solve-bv-as-int. '
             'Trusted: executor, solvers.',
    ),
    'C12': dict(
        text='AspectMeet/AspectSlice executed symbolically in a rounded-real reading (each float32 operation = exact*(1+d), |d|<=2^-24) with the '
             'specification stated in exact reals: unsat means the property holds for all real-rounded executions in the stated ranges; exact parts '
             '(kept dimension, Size) are decided bit-exactly in IEEE floating point.',
        note='Rounded-real over-approximates float32 only inside [2^-40,2^40] (no overflow/underflow modelled). Non-linear real arithmetic by z3 nlsat. '
             'Trusted: executor, solvers, the error model.',
    ),
    'C08': dict(
        text='Bit-exact (bit-vector + IEEE floating point) symbolic execution of the real number encoders/decoders over all 2^32 float32 '
             'inputs, all naturals below 2^30 and all 1/2/4-byte decoder patterns; the solver verdict covers every value, so the single '
             'failing float32 of quantize was found as a model. Right level: the codecs are straight-line word-level code whose defects sit at single points.',
        note='Trusted: the executor (validated by the SELFTEST concrete differential and per-run native trace validation), the SMT solvers, '
             'amd64 float->int conversion semantics. Routing of public writer arguments to codecs is under C01.',
    ),
}

NOT_APPLICABLE = {
}
