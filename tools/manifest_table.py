"""Per-property registration data for MANIFEST.json (edited by hand)."""

FIX_COMMITS = ['6ee40fa', 'ae949d4', 'a7cfa4b', '07ea7f8', 'a376616', 'dc7ab2b', 'd6f70b0', '0b33ab6', 'e75fe18', 'e9d82f2']

NOTES = ('All checks are bounded symbolic model checking of the real code (go/ssa of /repo working tree, regenerated on every run). '
         'Exit 0 = every obligation within the registered bounds was discharged or is listed as inconclusive in evidence; '
         'exit 1 = a natively reproduced, unlisted violation; exit 2 = infrastructure failure (no VIOLATION line). See DESIGN.md.')

CHECKS = {
    'C01': dict(
        text='Bounded symbolic execution of the real Encoder and decoder back to back: every Destination method with one fully arbitrary float32 operand '
             '(both resolutions), runs of every length around the 16/32 repeat limits, mixed verb sequences, and the converse direction (decoder-accepted '
             'streams transcoded through an Encoder, including streams that end inside a path). Number-level facts are the C08 lemmas; this check decides the plumbing.',
        note='Bounds: one arbitrary operand per call (others concrete short-form values), mixed sequences of K verbs (quick 2, thorough 3), transcoding of L arbitrary '
             'instruction bytes (quick 2, thorough 3). Longer programs only by composition with C03/C08/C10. Trusted: executor, solvers.',
    ),
    'C06': dict(
        text='PARTIAL. Decided: a zero/NaN radius arc is exactly one LineTo to the mapped endpoint (bit exact, all inputs; found the unmapped endpoint defect); the relative '
             'form is the absolute form measured from the pen (relational); relative degenerate arcs in the exact-real reading; and, for non-degenerate arcs in the exact-real reading with '
             'uninterpreted sin/cos/acos: at most four rasteriser calls, all cubics, for operands of any magnitude up to 2^100; and within the stated ranges each control and end point equal to the one the SVG centre parameterisation (written from the SVG implementation notes) prescribes, '
             'mapped under a non-uniform off-origin viewBox, last end point = mapped arc end point (given the F.6.5 end-angle theorem as a stated assumption).',
        note='Non-degenerate arcs: x-axis rotation 0 and 1/8 turn only, one viewBox map, exact reals (no rounding); the extent real trigonometry gives the sweep is not derivable with uninterpreted functions. '
             'Violated obligations of this reading usually come back unknown, so each case also runs 6 solver-drawn witnesses of the input assumptions through the native harness (oracle); '
             'passing witnesses claim nothing; the degenerate-radius harness has the same fallback in the bit-exact reading (inputs pinned to random float classes) for the case that a change makes it run out of budget. amd64 float->int semantics.',
    ),
    'C07': dict(
        text='One-step inductive check that Encoder and Renderer selector read-backs agree modulo 64 after any styling call from any agreeing pair of states '
             '(found the missing increment tracking; the written colour is of any kind: flat, palette index, CREG reference, blend), plus bounded pipelines (K symbolic styling calls + a path; selector writes + incrementing writes + Generator.SetGradient) '
             'through Renderer directly and through Encoder->Decode->Renderer with identical rasteriser logs and paints; DestinationLogger forwards every method once.',
        note='Bounds: K styling calls (quick 2, thorough 4) with symbolic selectors/adj/incr/colours and short-form numbers; 0..2 incrementing writes before the gradient helper. '
             'fmt.Printf is a no-op stub. Trusted: executor, solvers.',
    ),
    'C10': dict(
        text='One-step inductive check of the Encoder against a 4-state specification automaton from an arbitrary state satisfying a representation invariant that the same '
             'step re-establishes: every method, adj 0..255, incr, every colour kind, every pending verb; sticky first error; Bytes errs iff automaton in error; '
             'zero-value vs Reset(default) observational equality (found LOD (0,0) vs (0,+Inf)).',
        note='One inductive step covers histories of any length provided the invariant is inductive (checked) and holds initially (zero value, Reset). Float arguments concrete '
             '(the protocol logic does not read them). Trusted: executor, solvers.',
    ),
    'C04': dict(
        text='One-step symbolic execution of the real Renderer from an arbitrary register-machine state (64+64 symbolic registers, palette, selectors as arbitrary bytes, LOD) '
             'against a reference VM written from the specification: register writes, Reset, StartPath paint selection (flat / gradient / disabled, LOD test on the raster height), '
             'gradient configuration read back through the GradientConfig accessors, no rasteriser activity on a disabled path; and a relational two-path history (gradient path, one register write at any selector-relative target, second path) '
             'against a Renderer that holds the same registers without the first path (stale paint caches).',
        note='Bounds: gradients with at most `stops` stops (quick 2, thorough 4); colour resolution is delegated to the C09 lemmas. Trusted: executor, solvers, reference VM.',
    ),
    'C05': dict(
        text='Bit-exact symbolic execution of the 16 non-arc drawing verbs, StartPath, the close-and-move operations and ClosePathEndPath from an arbitrary geometric state '
             '(viewBox, rectangle size and origin, pen, sub-path start, smooth-curve memory all symbolic) against a reference pen/affine-map model; rasteriser calls must match bit for bit.',
        note='Bounds: sequences of K verbs (quick 1, thorough 3) from an arbitrary state; the reference uses the same formula shape s*(v + -min) so equivalent refactorings may become inconclusive, never violations. Arcs are C06.',
    ),
    'C11': dict(
        text='decode() executed symbolically with a recording printer and a recording destination on arbitrary instruction bytes: byte columns reproduce the input, each column <= 4 bytes, '
             'one instruction line per delivered operation, printed numbers/colours are the delivered ones; the text Disassemble itself returns (bytes.Buffer modelled with content, '
             'one earlier Disassemble call in the same process allowed, sync.Pool handing back pooled objects) is parsed back: its hex fields reproduce the input byte for byte and its line count matches the delivered operations; '
             'suggested-palette lines print exactly the RGBA values delivered through Reset; Decode and Disassemble return the same error on fully arbitrary input.',
        note='Bounds: L arbitrary instruction bytes after an empty metadata section (quick 5, thorough 7); fully arbitrary inputs of up to W bytes (quick 7, thorough 10) for the verdict. '
             'Text harness: L = 4 (thorough 5) after an optional earlier call on one arbitrary byte; palette listing: 1..4 (thorough 1..16) colours in every form. '
             'fmt rendering of values to text is a trusted stub (values are compared, not text; Fprintf appends its format string verbatim).',
    ),
    'C13': dict(
        text='Metadata sections as arbitrary bytes (count, lengths, MIDs, contents) against the reference parser; palette chunks of every format with arbitrary colour bytes and any '
             'declared length; viewBox chunks with coordinates of freely chosen widths; the coordinate codec is monotone and keeps finite values finite for all float32 pairs.',
        note='Bounds: section length L (quick 8, thorough 10), n explicit palette entries (quick 3, thorough 6). Repeated / decreasing MIDs are a stated do-not-care region. Trusted: executor, solvers, reference parser.',
    ),
    'C14': dict(
        text='Option lists of length <= K (WithPalette with a fully symbolic palette, WithColorAt with a symbolic colour of four colour models) folded over the suggested palette; '
             'inputs unmodified; a non-premultiplied user entry paints opaque black through a real Renderer (found the missing sanitisation).',
        note='Bounds: K = 2 (quick) / 3 (thorough); WithColorAt indices 0, 1, 63. Trusted: executor, solvers.',
    ),
    'C15': dict(
        text='Spread.Clamp bit-exactly over float64 |x| < 2^31 for all four modes (found the odd-integer reflect defect); Gradient.At against the specification as a function of the offset '
             '(stop colours exact, end colours, transparent cases) and of the pixel (offset = matrix applied to the pixel centre, distance for radial), relationally; '
             'pixel-to-gradient matrix and interpolation in the exact-real reading.',
        note='Bounds: 2 stops (quick) / 3 stops (thorough) with concrete offsets and symbolic colours; the matrix also after the same gradient was painted on a raster of another size (SetRasterizer, no Reset); interpolation premultiplication only in exact reals (bit-exact float64 monotonicity times out). Trusted: executor, solvers.',
    ),
    'C16': dict(
        text='PARTIAL, repository side only: vec.Rasterizer.Draw applies the configured operator to the first Draw and source-over afterwards; the Renderer issues origin-independent '
             'rasteriser calls and rectangle-relative paints; indirect colours store what their direct twins store from any state. No obligation examines a pixel.',
        note='Assumed, not checked: same calls => same pixels; translation covariance and clipping of golang.org/x/image/vector (assembly, outside go/ssa); power-of-two scale invariance (clause b).',
    ),
    'C17': dict(
        text='Encoder.Reset from an arbitrary dirty state (any mode, error, pending run, selectors, LOD, flags, buffer contents; optionally reached after a real earlier use with custom metadata and an abandoned path) is field-equal to a fresh Encoder after the same Reset, '
             'and K further arbitrary calls + Bytes give identical bytes/errors; Bytes is idempotent; Renderer.Reset from an arbitrary dirty state (optionally reached after a real earlier use: SetLOD with arbitrary bounds, register writes, a gradient paint, an abandoned path) renders a well-formed program like a fresh Renderer.',
        note='Bounds: K = 1 (quick) / 2 (thorough) calls after Reset, Reset with every combination of default/custom viewBox and palette. Field equality after Reset is the inductive argument for longer programs. Determinism: the executor found no read of clock/random/map order on any path.',
    ),
    'C18': dict(
        text='PARTIAL (sequential footprint instead of schedules): every package-level variable and every shared input is a read-only region during symbolic execution of decode / '
             'disassemble / encode / render entry points; two pipelines interleaved operation by operation produce what each produces alone. No shared writable location implies no data race under the Go memory model.',
        note='Schedules as such are not explored; fmt, bytes.Buffer, x/image/vector are outside the model and trusted to be goroutine-safe. Bounds: L arbitrary instruction bytes (quick 3, thorough 4); colour helpers on arbitrary palette/register entries; a zero-value Encoder queried by any getter, then Reset with default/custom metadata, next to an untouched Encoder. sync.Pool is modelled as always empty, sync/atomic.Value as a plain cell (a Store into a package-level Value is a write).',
    ),
    'C19': dict(
        text='SetGradient into a recorder whose calls are replayed on the specification machine (registers named by the gradient value hold stops and matrix, selectors restored), '
             'rejection conditions for stop counts {0..3,57,58,59,64,255,256,257,300} and every CSEL byte on recorder / Renderer / Encoder (found the uint8 wrap and the unreduced selector), '
             'linear / circular / elliptical geometry in the exact-real reading.',
        note='Registers also for a Generator that set a gradient of the same geometry before a Reset of the destination. Geometry is decided as algebra over the reals (rounding error of the matrices not modelled: rounded-real does not terminate, 12 error terms with cancellation). Trusted: executor, solvers.',
    ),
    'C20': dict(
        text='PARTIAL: per-verb transform dispatch of both front ends bit-exactly for every verb; Concat as matrix composition in exact reals; SetPathData / ParsePathData on path strings of '
             'fixed skeletons (every verb letter, implicit repetition, zM join, compact ".5" right after a number with a dot) whose digits are symbolic, with text->float parsing an uninterpreted function of the token bytes; ParsePath opacity/circle logic.',
        note='Not decided: that decimal text denotes the float it is parsed to (strconv / fmt scanning are stubs), XML handling, skeletons beyond the enumerated ones. Bounds: symbolic digits per string (quick 2/4, thorough 4/12); a Generator that converted a path under another transform before (relational, arbitrary transforms).',
    ),
    'C02': dict(
        text='Bounded symbolic execution of the real decoder on fully symbolic byte windows: every index, slice bound, nil dereference, '
             'division and explicit panic on every feasible path is an obligation, the input slice is a read-only region, and the '
             'structural claims (first call Reset, >=1 byte per delivered call, prefix-closedness, DecodeError) are asserted per path; '
             'an arc with operands of any magnitude up to 2^100 causes at most four rasteriser calls (exact-real reading, trigonometry by range contracts). '
             'Right level: safety of a parser over all inputs up to a length bound is exactly what bounded model checking decides.',
        note='Bounds: windows/streams of the lengths stated in evidence.bounds; longer inputs only through the per-step lemma. '
             'Trusted: executor, solvers; fmt is a stub, bytes.Buffer a content model; rasteriser is a recording stub.',
    ),
    'C03': dict(
        text='Differential symbolic execution: the real decoder and an independent reference parser written from spec/iconvg-spec-v0.md '
             'run on the same symbolic bytes; accept/reject, bytes consumed, next mode and every delivered operand (bit level) must agree '
             'for every byte pattern within the window. Right level: grammar conformance is a for-all-inputs equivalence.',
        note='Bounds: one instruction within L bytes, whole streams of 4+L bytes (evidence.bounds). Streams whose metadata chunks repeat or '
             'decrease MIDs are a stated do-not-care region. Trusted: executor, solvers, the reference parser (harness/ref).',
    ),
    'C09': dict(
        text='Bit-vector symbolic execution of colour codecs, Encoder.SetCReg, the suggested-palette writer/reader and Color.Resolve over all '
             'byte patterns / all 2^32 RGBA values / all (t,c0,c1) with fully symbolic palette and registers; blend decided as three chained lemmas. '
             'Right level: tables and arithmetic on bytes with rare failing inputs (found: 1-byte palette form for translucent colours).',
        note='Bounds: suggested palettes with n explicit symbolic entries (quick 2, thorough 8), after a default or a custom viewBox chunk. Premultiplication lemma needs cvc5 --solve-bv-as-int. '
             'Trusted: executor, solvers.',
    ),
    'C12': dict(
        text='AspectMeet/AspectSlice executed symbolically in a rounded-real reading (each float32 operation = exact*(1+d), |d|<=2^-24) with the '
             'specification stated in exact reals: unsat means the property holds for all real-rounded executions in the stated ranges; exact parts '
             '(kept dimension, Size) are decided bit-exactly in IEEE floating point.',
        note='Rounded-real over-approximates float32 inside [2^-70,2^70]; every rounded operation carries a no-overflow side obligation, and when one of them has a witness the same harness is '
             'run bit-exactly (IEEE float32 incl. Inf/NaN) to hunt for a violation in the overflow region. Non-linear real arithmetic by z3 nlsat. '
             'Trusted: executor, solvers, the error model.',
    ),
    'C08': dict(
        text='Bit-exact (bit-vector + IEEE floating point) symbolic execution of the real number encoders/decoders over all 2^32 float32 '
             'inputs, all naturals below 2^30 and all 1/2/4-byte decoder patterns; the solver verdict covers every value, so the single '
             'failing float32 of quantize was found as a model; the 4-ulp tolerance also demands that finite values stay finite. Right level: the codecs are straight-line word-level code whose defects sit at single points.',
        note='Trusted: the executor (validated by the SELFTEST concrete differential and per-run native trace validation), the SMT solvers, '
             'amd64 float->int conversion semantics. Routing of public writer arguments to codecs is under C01.',
    ),
}

NOT_APPLICABLE = {
}
