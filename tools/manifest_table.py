"""Per-property registration data for MANIFEST.json (edited by hand)."""

FIX_COMMITS = ['0b33ab6', 'e9d82f2']

NOTES = ('All checks are bounded symbolic model checking of the real code (go/ssa of /repo working tree, regenerated on every run). '
         'Exit 0 = every obligation within the registered bounds was discharged or is listed as inconclusive in evidence; '
         'exit 1 = a natively reproduced, unlisted violation; exit 2 = infrastructure failure (no VIOLATION line). See DESIGN.md.')

CHECKS = {
    'C08': dict(
        text='Bit-exact (bit-vector + IEEE floating point) symbolic execution of the real number encoders/decoders over all 2^32 float32 '
             'inputs, all naturals below 2^30 and all 1/2/4-byte decoder patterns; the solver verdict covers every value, so the single '
             'failing float32 of quantize was found as a model. Right level: the codecs are straight-line word-level code whose defects sit at single points.',
        note='Trusted: the executor (validated by the SELFTEST concrete differential and per-run native trace validation), the SMT solvers, '
             'amd64 float->int conversion semantics. Routing of public writer arguments to codecs is under C01.',
    ),
}

NOT_APPLICABLE = {
}
