#!/usr/bin/env python3
"""Regenerates /verif/MANIFEST.json from the table below (single source of truth)."""
import json
import os

ROOT = os.path.dirname(os.path.dirname(os.path.abspath(__file__)))
TECH = ('bounded symbolic execution of go/ssa (own executor) + SMT portfolio (z3 4.8.12, z3 5.1, cvc5 1.0) '
        'on QF_BV/FP/arrays; models replayed natively before any VIOLATION')

CHECKS = {
}

NOT_YET = {}


def load_table():
    import importlib.util
    p = os.path.join(ROOT, 'tools', 'manifest_table.py')
    spec = importlib.util.spec_from_file_location('mt', p)
    m = importlib.util.module_from_spec(spec)
    spec.loader.exec_module(m)
    return m


def main():
    mt = load_table()
    checks = []
    for pid in sorted(mt.CHECKS):
        c = mt.CHECKS[pid]
        checks.append({
            'property_id': pid,
            'quick_cmd': './check %s --tier quick' % pid,
            'thorough_cmd': './check %s --tier thorough' % pid,
            'evidence_file': '/verif/evidence/%s.json' % pid,
            'replay_cmd_template': './check %s --replay {path}' % pid,
            'engine': 'symex',
            'level_claimed': {'category': 'model_checking', 'text': c['text'], 'design_ref': c.get('design_ref', 'DESIGN.md section 6 (%s)' % pid)},
            'level_note': c['note'],
            'technique': c.get('technique', TECH),
        })
    props = [json.loads(l)['id'] for l in open(os.path.join(ROOT, 'properties.jsonl'))]
    na = []
    for pid in props:
        if pid not in mt.CHECKS:
            na.append({'property_id': pid, 'reason': mt.NOT_APPLICABLE.get(pid, 'no check registered yet')})
    m = {
        'version': 1,
        'setup_cmd': './setup.sh',
        'hooks': {
            'guard': 'verif',
            'enable': 'no guarded source exists in /repo: wrappers are injected by go/packages Overlay and go test -overlay from /verif/overlay',
            'baseline_off_cmd': 'cd /repo && go test -vet=off -count=1 ./...',
            'source_commits': mt.FIX_COMMITS,
            'add_only': True,
        },
        'engines': [{
            'name': 'symex', 'path': '/verif/engine',
            'serves_properties': sorted(mt.CHECKS),
            'kind_free_text': 'go/ssa exporter (tools/ssaexport, x/tools v0.29.0) + Python symbolic executor + SMT solver portfolio + native replay via go test -overlay',
        }],
        'checks': checks,
        'notes': mt.NOTES,
        'not_applicable': na,
    }
    with open(os.path.join(ROOT, 'MANIFEST.json'), 'w') as f:
        json.dump(m, f, indent=1)
    print('MANIFEST: %d checks, %d not_applicable' % (len(checks), len(na)))


if __name__ == '__main__':
    main()
