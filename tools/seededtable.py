#!/usr/bin/env python3
"""Prints the markdown table of seeded changes and which checks catch them (from seeded/*/meta.json)."""
import glob
import json
import os
import re

rows = []
refs = []
for d in sorted(glob.glob('/verif/seeded/*/meta.json')):
    m = json.load(open(d))
    name = m['id']
    if name.startswith('refactor-'):
        first = ''
        for line in m.get('readme', '').split('\n'):
            line = line.strip(' #*-')
            if len(line) > 20:
                first = line
                break
        res = []
        for c, v in sorted(m.get('checks', {}).items()):
            res.append('%s: %s' % (c, {0: 'clean', 1: 'VIOLATION (false alarm)', 2: 'undecided (exit 2)'}.get(v['rc'], str(v['rc']))))
        refs.append((name, m.get('suite_passes_patched'), first[:110], '; '.join(res)))
        continue
    first = ''
    for line in m.get('what_it_needs', '').split('\n'):
        line = line.strip(' #*-')
        if len(line) > 20:
            first = line
            break
    valid = all(m.get(k) for k in ('applies', 'suite_passes_patched', 'demo_fails_patched', 'demo_passes_unpatched'))
    det = []
    for c, v in m.get('checks', {}).items():
        det.append('%s: %s' % (c, {0: 'missed', 1: 'VIOLATION', 2: 'engine error'}.get(v['rc'], str(v['rc'])) + ' (%s, %ss)' % (v.get('tier', 'quick'), int(v['wall_s']))))
    rows.append((name, valid, first[:110], '; '.join(det)))
import sys
out = []
def print(*a):  # collect
    out.append(' '.join(str(x) for x in a))
print('| seeded change | valid | what it is | result of our checks |')
print('|---|---|---|---|')
for r in rows:
    print('| %s | %s | %s | %s |' % (r[0], 'yes' if r[1] else 'NO', r[2].replace('|', '/'), r[3]))

print()
print('| refactoring | suite passes | what it is | result of our checks |')
print('|---|---|---|---|')
for r in refs:
    print('| %s | %s | %s | %s |' % (r[0], 'yes' if r[1] else 'NO', r[2].replace('|', '/'), r[3]))

# summary
tot = len(rows)
own = other = miss = err = 0
missed = []
for (name, valid, first, det) in rows:
    m = json.load(open('/verif/seeded/%s/meta.json' % name))
    pid = m['property']
    rcs = {c: v['rc'] for c, v in m.get('checks', {}).items()}
    if rcs.get(pid) == 1:
        own += 1
    elif 1 in rcs.values():
        other += 1
    elif 2 in rcs.values() and 0 not in rcs.values():
        err += 1
        missed.append(name + ' (no verdict: exit 2)')
    else:
        miss += 1
        missed.append(name)
ninv = sum(1 for r in rows if not r[1])
valid_txt = 'all' if ninv == 0 else 'all but %d' % ninv
summary = ('%d seeded changes (VALIDTXT re-confirmed valid: compile, suite passes, demonstration fails with and passes without): %d are reported as a VIOLATION by the quick check of the '
           'property they were written against, %d more by the quick check of another property, %d are not reported by any check run against them, and %d leave the '
           'check without a verdict (exit 2, never a VIOLATION). Not reported: %s. Of the %d behaviour-preserving refactorings none raises a VIOLATION.'
           % (tot, own, other, miss, err, ', '.join(missed), len(refs))).replace('VALIDTXT', valid_txt)
import builtins
if '--insert' in sys.argv:
    d = open('/verif/DESIGN.md').read()
    a, b = d.index('<!-- SEEDED-TABLE-BEGIN -->'), d.index('<!-- SEEDED-TABLE-END -->')
    d = d[:a] + '<!-- SEEDED-TABLE-BEGIN -->\n' + '\n'.join(out) + '\n' + d[b:]
    a, b = d.index('<!-- SEEDED-SUMMARY-BEGIN -->'), d.index('<!-- SEEDED-SUMMARY-END -->')
    d = d[:a] + '<!-- SEEDED-SUMMARY-BEGIN -->\n' + summary + '\n' + d[b:]
    open('/verif/DESIGN.md', 'w').write(d)
    builtins.print('DESIGN.md updated:', summary)
else:
    builtins.print('\n'.join(out))
    builtins.print()
    builtins.print(summary)
