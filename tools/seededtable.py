#!/usr/bin/env python3
"""Prints the markdown table of seeded changes and which checks catch them (from seeded/*/meta.json)."""
import glob
import json
import os
import re

rows = []
refs = []
for d in sorted(glob.glob('/verif/seeded/*/meta.json')):
    m = json.load(open(d))
    name = m['id']
    if name.startswith('refactor-'):
        first = ''
        for line in m.get('readme', '').split('\n'):
            line = line.strip(' #*-')
            if len(line) > 20:
                first = line
                break
        res = []
        for c, v in sorted(m.get('checks', {}).items()):
            res.append('%s: %s' % (c, {0: 'clean', 1: 'VIOLATION (false alarm)', 2: 'undecided (exit 2)'}.get(v['rc'], str(v['rc']))))
        refs.append((name, m.get('suite_passes_patched'), first[:110], '; '.join(res)))
        continue
    first = ''
    for line in m.get('what_it_needs', '').split('\n'):
        line = line.strip(' #*-')
        if len(line) > 20:
            first = line
            break
    valid = all(m.get(k) for k in ('applies', 'suite_passes_patched', 'demo_fails_patched', 'demo_passes_unpatched'))
    det = []
    for c, v in m.get('checks', {}).items():
        det.append('%s: %s' % (c, {0: 'missed', 1: 'VIOLATION', 2: 'engine error'}.get(v['rc'], str(v['rc'])) + ' (%s, %ss)' % (v.get('tier', 'quick'), int(v['wall_s']))))
    rows.append((name, valid, first[:110], '; '.join(det)))
print('| seeded change | valid | what it is | result of our checks |')
print('|---|---|---|---|')
for r in rows:
    print('| %s | %s | %s | %s |' % (r[0], 'yes' if r[1] else 'NO', r[2].replace('|', '/'), r[3]))

print()
print('| refactoring | suite passes | what it is | result of our checks |')
print('|---|---|---|---|')
for r in refs:
    print('| %s | %s | %s | %s |' % (r[0], 'yes' if r[1] else 'NO', r[2].replace('|', '/'), r[3]))
