#!/usr/bin/env python3
"""Run every quick check against a behaviour-preserving refactoring (from an independent sub-agent):
no check may print VIOLATION. usage: evalrefactor.py <name> <dir with patch.diff README.md> [--checks=C01,..]"""
import json
import os
import shutil
import subprocess
import sys
import time

WT = None
ENV = dict(os.environ, GOFLAGS='-mod=mod', GOPROXY='off', GOSUMDB='off', GOTOOLCHAIN='local')
ALL = ['C%02d' % i for i in range(1, 21)]


def sh(cmd, cwd=None, timeout=7200):
    r = subprocess.run(cmd, shell=True, cwd=cwd, env=ENV, capture_output=True, text=True, timeout=timeout)
    return r.returncode, r.stdout + r.stderr


def main():
    name, d = sys.argv[1], sys.argv[2].rstrip('/')
    checks = ALL
    for a in sys.argv[3:]:
        if a.startswith('--checks='):
            checks = a.split('=')[1].split(',')
    global WT
    WT = '/tmp/eval/' + name
    sh('git -C /repo worktree remove --force %s' % WT)
    rc, out = sh('git -C /repo worktree add -q --detach %s HEAD' % WT)
    if rc != 0:
        print('cannot create worktree', out)
        sys.exit(2)
    meta = dict(id=name, kind='behaviour-preserving refactoring: no check may raise an alarm', readme=open(os.path.join(d, 'README.md')).read()[:3000])
    try:
        rc, out = sh('git apply %s' % os.path.join(d, 'patch.diff'), WT)
        meta['applies'] = rc == 0
        if rc != 0:
            print('patch does not apply', out)
            return
        rc, out = sh('go build ./... && go test -vet=off -count=1 ./...', WT)
        meta['suite_passes_patched'] = rc == 0
        meta['checks'] = {}
        for c in checks:
            t0 = time.time()
            rc, out = sh('VERIF_REPO=%s ./check %s --tier quick --no-evidence' % (WT, c), '/verif')
            meta['checks'][c] = dict(rc=rc, wall_s=round(time.time() - t0, 1),
                                     violations=[l[:300] for l in out.split('\n') if l.startswith('VIOLATION') or l.startswith('  harness')][:6],
                                     other=[l[:300] for l in out.split('\n') if l.startswith(('ENGINE', 'INCONCLUSIVE', 'VACUOUS'))][:6],
                                     summary=[l for l in out.split('\n') if l.startswith(c + ' tier=')][-1:])
    finally:
        sh('git -C /repo worktree remove --force %s' % WT)
        out_dir = os.path.join('/verif/seeded', name)
        os.makedirs(out_dir, exist_ok=True)
        if os.path.abspath(d) != os.path.abspath(out_dir):
            shutil.copy(os.path.join(d, 'patch.diff'), os.path.join(out_dir, 'patch.diff'))
        old = os.path.join(out_dir, 'meta.json')
        if os.path.exists(old):     # keep the results of checks evaluated earlier
            prev = json.load(open(old)).get('checks', {})
            prev.update(meta.get('checks', {}))
            meta['checks'] = prev
        with open(os.path.join(out_dir, 'meta.json'), 'w') as f:
            json.dump(meta, f, indent=1)
        print(name, 'suite', meta.get('suite_passes_patched'), {c: v['rc'] for c, v in meta.get('checks', {}).items() if v['rc'] != 0})


if __name__ == '__main__':
    main()
