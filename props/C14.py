HARNESSES = {
    'Options': dict(split={'opt': 3, 'opt#1': 3, 'model': 4}, quick=dict(params={'K': 2}), thorough=dict(params={'K': 3})),
}
BOUNDS = {
    'Options': 'option lists of length <= K (quick 2, thorough 3), each WithPalette(fully symbolic palette) / WithColorAt(index 0, 1 or 63, symbolic colour of model RGBA, NRGBA, Gray or RGBA64) / none',
    'Sanitised': 'all non-premultiplied RGBA values given through either option, painted through a real Renderer',
}
OUTSIDE = 'WithColorAt indices outside 0..63 (array-index precondition); colour models other than the four stdlib ones'
