HARNESSES = {
    'RegisterStep': dict(split={'call': 5}),
    'StartPathGradient': dict(quick=dict(params={'stops': 2}, ext_s=240), thorough=dict(params={'stops': 4})),
    'Repaint': dict(split={'write': 2}, job_timeout_s=700, quick=dict(params={'stops': 2}), thorough=dict(params={'stops': 3})),
    'DisabledPath': dict(split={'call': 19}),
}
MERGE = ['vph/ref.premul']

BOUNDS = {
    'state': 'arbitrary: 64 symbolic colour registers, 64 symbolic float32 number registers, symbolic palette, selectors as arbitrary bytes (values >= 64 included), symbolic LOD',
    'StartPathGradient': 'gradient-encoding register values with at most `stops` stops (quick 2, thorough 4), every CBASE/NBASE/shape/spread',
    'Repaint': 'relational two-path history from an arbitrary state: gradient path, one SetNReg (arbitrary value) or SetCReg (a fixed opaque colour) with arbitrary selector-relative target, second path; compared with a Renderer holding the same registers without the first path; gradients with 2..stops stops',
    'StartPathFlat': 'raster heights 1..256',
}
OUTSIDE = 'gradients with more stops than the bound (same loop body); gradients with 0 or 1 stops (the property is silent); the pixel-to-gradient matrix is C15; colour resolution is C09'
