HARNESSES = {
    'RegisterStep': dict(split={'call': 5}),
    'StartPathGradient': dict(quick=dict(params={'stops': 2}), thorough=dict(params={'stops': 4})),
    'DisabledPath': dict(split={'call': 19}),
}
MERGE = ['vph/ref.premul']
