OVERLAY = ['modes']   # overlay wrapper groups this property's harnesses call (overlay/<pkg>/zz_vp_<tag>.go)
HARNESSES = {
    'ArcSegments': dict(mode='X', validate=0, oracle=8, inproc_ms=4000, ext_s=30, job_timeout_s=400, split={'large': 2, 'sweep': 2}, opts=dict(feas_timeout_ms=300, ifconv=False)),
    'Gate': dict(split={'hot': 4, 'width': 3, 'two': 2}),
    'Step': dict(split={'len': 6, 'mode': 2}, quick=dict(params={'W': 6}), thorough=dict(params={'W': 9}, split={'len': 9, 'mode': 2})),
    'Header': dict(split={'len': 9}, quick=dict(params={'W': 8}), thorough=dict(params={'W': 11}, split={'len': 12})),
    'Prefix': dict(split={'cut': 9}, quick=dict(params={'L': 5}), thorough=dict(params={'L': 6}, split={'cut': 10})),
    'IntoRenderer': dict(split={'op': 16}, quick=dict(params={'L': 5}), thorough=dict(params={'L': 7})),
    'IntoEncoder': dict(split={'op': 16}, quick=dict(params={'L': 2}), thorough=dict(params={'L': 3}, job_timeout_s=3000)),
}

BOUNDS = {
    'ArcSegments': 'exact-real reading, sin/cos/acos uninterpreted (range contracts only): one non-degenerate arc with every operand of magnitude up to 2^100, all flag combinations, fixed viewBox/raster: at most four rasteriser calls, all cubics; refutation by native-oracle witnesses of the input assumptions (cells at scales 2^-60..2^95)',
    'Step': 'one styling / drawing mode step on every window of 1..W arbitrary bytes (quick W=6, thorough W=9)',
    'Header': 'Decode, DecodeViewBox, Disassemble on every input of 0..W fully arbitrary bytes (quick W=8, thorough W=11), chunk counts/lengths up to 2^30 included',
    'Prefix': 'magic + L arbitrary bytes (quick 5, thorough 6), every cut point',
    'IntoRenderer': 'magic, no metadata, L arbitrary instruction bytes into a real Renderer + recording rasteriser (quick 5, thorough 7)',
    'IntoEncoder': 'same into a real Encoder (quick 2, thorough 3; every number re-encoding forks on floating point conditions)',
}
OUTSIDE = ('inputs longer than the stated windows as a whole (longer inputs are covered only through the per-step result: every successful step '
           'consumes >= 1 byte and delivers <= consumed calls); rasteriser internals; arcs with symbolic trigonometry are under C06')
EXPLANATION = ('most C02 assertions are structural (lengths, counts) and close by constant folding on each explored path; the safety content is that '
               'no explored path contains a feasible panic, out-of-range read or write into the input (obligations raised by the executor, none arose)')
