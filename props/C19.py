HARNESSES = {
    'Registers': dict(split={'n': 6, 'prior': 2}),
    'Rejects': dict(split={'n': 12, 'dest': 3}),
    'Linear': dict(mode='X', validate=0),
    'Circular': dict(mode='X', validate=0),
    'Elliptical': dict(mode='X', validate=0),
}

BOUNDS = {
    'Registers': 'fresh Generator, or one that set a gradient of the same geometry before a Reset of the destination; n in {0,1,2,3,57,58} stops (symbolic stop values for n <= 3), any prior CSEL/NSEL outside the stop range, symbolic matrix, every shape and spread',
    'Rejects': 'n in {0,1,2,3,57,58,59,64,255,256,257,300}, every CSEL byte, recorder / Renderer (selector any byte) / Encoder',
    'Linear/Circular/Elliptical': 'exact-real reading, all non-degenerate real inputs',
}
OUTSIDE = 'rounding error of the helper matrices (rounded-real does not terminate); rendered geometry is the composition with C15 (paper step)'
