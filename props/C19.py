HARNESSES = {
    'Registers': dict(split={'n': 6}),
    'Rejects': dict(split={'n': 12, 'dest': 3}),
    'Linear': dict(mode='X', validate=0),
    'Circular': dict(mode='X', validate=0),
    'Elliptical': dict(mode='X', validate=0),
}
