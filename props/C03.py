OVERLAY = ['codec', 'modes']   # overlay wrapper groups this property's harnesses call (overlay/<pkg>/zz_vp_<tag>.go)
HARNESSES = {
    'StylingStep': dict(split={'op': 16}, quick=dict(params={'L': 6}), thorough=dict(params={'L': 9})),
    'DrawingStep': dict(split={'op': 16}, quick=dict(params={'L': 6}), thorough=dict(params={'L': 9})),
    'WideStep': dict(split={'verb': 18, 'width': 3}),
    'Stream': dict(split={'hi': 16}, quick=dict(params={'L': 5}), thorough=dict(params={'L': 7})),
}
BOUNDS = {
    'WideStep': 'one repetition of every drawing verb with one operand of any width (1/2/4 arbitrary bytes, position symbolic) and the others arbitrary 1-byte forms',
    'Numbers': 'all byte patterns of length 0..4',
    'StylingStep/DrawingStep': 'one instruction on a window of L arbitrary bytes (quick L=6, thorough L=9), every opcode byte, every operand width that fits; repeat counts limited by L',
    'WideStep': dict(split={'verb': 18, 'width': 3}),
    'Stream': 'magic + L arbitrary bytes (quick L=5, thorough L=7): metadata and instructions',
}
OUTSIDE = 'instructions whose operands need more than L bytes (C/c/A/a with wide operands, long repeat runs) and streams longer than 4+L bytes as a whole; metadata sections longer than L bytes (see C13)'
