HARNESSES = {
    'Clamp': dict(split={'spread': 4}),
    'AtStops': dict(split={'where': 4, 'spread': 3}, quick=dict(params={'N': 2, 'symoff': 0}), thorough=dict(params={'N': 3, 'symoff': 1})),
    'AtGeometry': dict(split={'shape': 2, 'spread': 4}, opts=dict(feas_timeout_ms=400), quick=dict(params={'symoff': 0}), thorough=dict(params={'symoff': 1})),
    'Matrix': dict(mode='X', split={'shape': 2}, validate=0),
    'Interpolation': dict(mode='X', validate=0),
}
