HARNESSES = {
    'Clamp': dict(split={'spread': 4}),
    'AtStops': dict(split={'where': 4, 'spread': 3}, quick=dict(params={'N': 2, 'symoff': 0}), thorough=dict(params={'N': 3, 'symoff': 0})),
    'AtGeometry': dict(split={'shape': 2, 'spread': 4}, opts=dict(feas_timeout_ms=400), quick=dict(params={'symoff': 0}), thorough=dict(params={'symoff': 1})),
    'Matrix': dict(mode='X', split={'shape': 2, 'prior': 2}, validate=0),
    'Interpolation': dict(mode='X', validate=0),
}

BOUNDS = {
    'Clamp': 'bit exact, every float64 with |x| < 2^31, all four spreads',
    'AtStops': '2 stops with concrete offsets and symbolic colours (quick); 3 stops with concrete offsets (thorough; symbolic strictly increasing offsets were inconclusive at the caps and are not claimed); offset an arbitrary float64 in the stated region',
    'AtGeometry': 'symbolic float64 matrix, any int32 pixel, both shapes, all spreads; relational against the specification colour function',
    'Matrix': 'exact-real reading, 48x20 raster (fresh, or after painting the same gradient on a 16x16 raster and SetRasterizer), symbolic viewBox and register matrix, any pixel-space point',
    'Interpolation': 'exact-real reading, one range',
}
OUTSIDE = 'bit-exact premultiplication of interpolated colours (float64 monotonicity: timeouts) - claimed in exact reals only; stop lists longer than 3; rounding error of the matrix'
