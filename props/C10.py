HARNESSES = {
    'Step': dict(split={'call': 26, 'mode': 3}),
    'Observers': dict(split={'obs': 4}),
    'ZeroValue': dict(split={'call': 27}),
}
BOUNDS = {
    'Step': 'one call of every Destination method from an arbitrary Encoder state satisfying the (inductively checked) representation invariant: '
            'mode, error (none or any of the four), selectors, LOD, both resolution flags symbolic; pending run = any run-forming verb with 1..2 repeats of concrete coordinates; '
            'adj 0..255, incr, colour of any kind symbolic; float arguments concrete (the protocol logic does not read them; number handling is C01/C08)',
    'ZeroValue': 'zero-value vs Reset(default) Encoder after 0 or 1 arbitrary call',
}
OUTSIDE = 'pending runs longer than 2 repeats; accepted histories decode to themselves is C01'
