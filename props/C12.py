HARNESSES = {
    'Fit': dict(mode='R', split={'slice': 2}, validate=0, inproc_ms=60000, quick=dict(ext_s=240), thorough=dict(ext_s=300), opts=dict(ifconv=False)),   # generous caps: every obligation closes in-process in < 8 s on an idle machine, not on a loaded one
    'KeptDimension': dict(split={'slice': 2}),
}
BOUNDS = {
    'Fit': 'rounded-real reading: viewBox extents and target sizes in [2^-70, 2^70] with aspect ratios within [2^-30, 2^30], origins in [-2^70, 2^70]; every rounded operation carries a no-overflow side obligation, alignments in [0,1]; tolerance 8*2^-24 relative to the largest of target and result size',
    'KeptDimension/Size': 'bit exact, all float32 inputs (target sizes positive and <= 2^40, alignments in [0,1])',
}
OUTSIDE = 'underflow (gradual; absolute error below 2^-149), aspect ratios beyond 2^30; NaN/Inf inputs (the property is about finite positive sizes)'
