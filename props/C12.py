HARNESSES = {
    'Fit': dict(mode='R', split={'slice': 2}, validate=0, opts=dict(ifconv=False)),
    'KeptDimension': dict(split={'slice': 2}),
}
BOUNDS = {
    'Fit': 'rounded-real reading: viewBox extents, target sizes in [2^-40, 2^40], origins in [-2^40, 2^40], alignments in [0,1]; tolerance 8*2^-24 relative to the largest of target and result size',
    'KeptDimension/Size': 'bit exact, all float32 inputs (target sizes positive and <= 2^40, alignments in [0,1])',
}
OUTSIDE = 'overflow/underflow outside the stated ranges; NaN/Inf inputs (the property is about finite positive sizes)'
