OVERLAY = ['codec']   # overlay wrapper groups this property's harnesses call (overlay/<pkg>/zz_vp_<tag>.go)
HARNESSES = {
    'BlendPremul': dict(inproc_ms=300),
    'Palette': dict(quick=dict(params={'n': 2}), thorough=dict(params={'n': 8})),
}
