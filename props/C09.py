HARNESSES = {
    'BlendPremul': dict(solvers=None),
    'Palette': dict(quick=dict(params={'n': 2}), thorough=dict(params={'n': 4})),
}
