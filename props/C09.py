HARNESSES = {
    'BlendPremul': dict(inproc_ms=300),
    'Palette': dict(quick=dict(params={'n': 2}), thorough=dict(params={'n': 8})),
}
