OVERLAY = ['codec']   # overlay wrapper groups this property's harnesses call (overlay/<pkg>/zz_vp_<tag>.go)
HARNESSES = {
    'Section': dict(split={'count': 4}, quick=dict(params={'L': 8}), thorough=dict(params={'L': 10})),
    'PaletteChunk': dict(split={'format': 4, 'lenwidth': 3}, quick=dict(params={'N': 3}), thorough=dict(params={'N': 6})),
    'ViewBoxChunk': dict(split={'hot': 4, 'width': 3, 'two': 2}),
    'Delivered': dict(quick=dict(params={'L': 7}), thorough=dict(params={'L': 9})),
}
