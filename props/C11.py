HARNESSES = {
    'PaletteListing': dict(split={'n': 4, 'format': 4}, quick=dict(params={'N': 4}), thorough=dict(params={'N': 16}, split={'n': 16, 'format': 4})),
    'ArcListing': dict(split={'width': 3, 'rel': 2}),
    'Listing': dict(split={'op': 16}, quick=dict(params={'L': 5}), thorough=dict(params={'L': 7})),
    'Text': dict(split={'op': 16, 'prior': 2}, quick=dict(params={'L': 4, 'P': 1}), thorough=dict(params={'L': 5, 'P': 1})),
    'SameVerdict': dict(split={'len': 8}, quick=dict(params={'W': 7}), thorough=dict(params={'W': 10}, split={'len': 11})),
}

BOUNDS = {
    'PaletteListing': 'magic, one suggested-palette chunk with n colours (quick 1..4, thorough 1..16) in each of the four forms, arbitrary colour bytes',
    'ArcListing': 'StartPath, one arc (absolute or relative) with arbitrary 1-byte operands and a flags natural of any width, end path',
    'Listing': 'magic, empty metadata, L arbitrary instruction bytes (quick 5, thorough 7)',
    'Text': 'the text returned by Disassemble itself on magic, empty metadata, L arbitrary instruction bytes (quick 4, thorough 5), alone or after an earlier Disassemble of magic, empty metadata and one arbitrary byte (accepted or rejected); bytes.Buffer modelled with content, fmt.Fprintf appends the format string verbatim, sync.Pool hands back the last Put object',
    'SameVerdict': 'fully arbitrary inputs of 0..W bytes (quick 7, thorough 10)',
}
OUTSIDE = 'the text fmt produces from the values (values are compared, not text); listings of metadata chunks beyond W bytes'
