HARNESSES = {
    'Listing': dict(split={'op': 16}, quick=dict(params={'L': 5}), thorough=dict(params={'L': 7})),
    'SameVerdict': dict(split={'len': 8}, quick=dict(params={'W': 7}), thorough=dict(params={'W': 10}, split={'len': 11})),
}
