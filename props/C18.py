HARNESSES = {
    'DecodeFootprint': dict(split={'op': 16, 'dest': 5}, quick=dict(params={'L': 3}), thorough=dict(params={'L': 5})),
    'InterleavedEncoders': dict(split={'resetA': 2, 'resetB': 2}),
}

BOUNDS = {
    'DecodeFootprint': 'L arbitrary instruction bytes (quick 3, thorough 5; one less into an Encoder) with WithPalette + WithColorAt into recorder / Renderer / Encoder, DecodeViewBox, Disassemble',
    'Interleaved*': 'two fixed 6-step programs with symbolic selectors/colours, alternated step by step; zero-value and reset Encoders; two Renderers inside gradient paths',
}
OUTSIDE = 'schedules themselves, the race detector, goroutine-safety of fmt / bytes.Buffer / golang.org/x/image/vector (outside the model)'
EXPLANATION = 'partial: the sequential frame condition (no write to shared inputs or package-level variables) and operation-level interleaving, from which race freedom follows under the Go memory model; schedules are not explored'
