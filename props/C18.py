HARNESSES = {
    'DecodeFootprint': dict(split={'op': 16, 'dest': 5}, quick=dict(params={'L': 3}), thorough=dict(params={'L': 4})),
    'InterleavedEncoders': dict(split={'resetA': 2, 'resetB': 2}),
    'EncoderLifecycle': dict(split={'getter': 5, 'meta': 3}),
}

BOUNDS = {
    'DecodeFootprint': 'L arbitrary instruction bytes (quick 3, thorough 4; one less into an Encoder) with WithPalette + WithColorAt into recorder / Renderer / Encoder, DecodeViewBox, Disassemble',
    'Helpers': 'every colour helper on an arbitrary colour, with arbitrary palette / register entries at the indices resolved; the fitting helpers on fixed arguments',
    'EncoderLifecycle': 'zero-value Encoder, one of 4 getters (or none) before anything is emitted, optional Reset with default / custom viewBox / custom palette, a 6-step program, Bytes; a second untouched Encoder',
    'Interleaved*': 'two fixed 6-step programs with symbolic selectors/colours, alternated step by step; zero-value and reset Encoders; two Renderers inside gradient paths',
}
OUTSIDE = 'schedules themselves, the race detector, goroutine-safety of fmt / bytes.Buffer / golang.org/x/image/vector (outside the model)'
EXPLANATION = 'partial: the sequential frame condition (no write to shared inputs or package-level variables) and operation-level interleaving, from which race freedom follows under the Go memory model; schedules are not explored'
