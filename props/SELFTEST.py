"""Translator validation (DESIGN section 8.1): concrete corpus through symex and native code."""
import glob
import os

REPO = os.environ.get('VERIF_REPO', '/repo')


def _cases():
    out = []
    for f in sorted(glob.glob(os.path.join(REPO, 'testdata', '*.ivg'))):
        data = open(f, 'rb').read()
        pres = {'src[%d]' % i: b for i, b in enumerate(data)}
        for hires in (0, 1):
            out.append(dict(presets=pres, params={'len': len(data), 'hires': hires, 'shift': 0}, tag=os.path.basename(f) + (':hi' if hires else ':lo')))
    return out


HARNESSES = {
    'Corpus': dict(cases=_cases(), validate=1, opts=dict(max_steps=5000000)),
}
