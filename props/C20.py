HARNESSES = {
    'NormalizeGen': dict(split={'verb': 19}),
    'NormalizeMD': dict(split={'verb': 16}),
    'Concat': dict(mode='X', validate=0),
    'SetPathData': dict(split={'verb': 18, 'form': 4}, quick=dict(params={'digits': 2}), thorough=dict(params={'digits': 4})),
    'ParsePathData': dict(split={'verb': 14, 'form': 3}, quick=dict(params={'digits': 4}), thorough=dict(params={'digits': 12})),
}
