OVERLAY = ['pathdata']   # overlay wrapper groups this property's harnesses call (overlay/<pkg>/zz_vp_<tag>.go)
HARNESSES = {
    'NormalizeGen': dict(split={'verb': 19}),
    'NormalizeMD': dict(split={'verb': 16}),
    'Concat': dict(mode='X', validate=0),
    'SetPathData': dict(split={'verb': 18, 'form': 4}, quick=dict(params={'digits': 2}), thorough=dict(params={'digits': 4})),
    'Retransform': dict(split={'path': 4, 'first': 2}),
    'ParsePathData': dict(split={'verb': 14, 'form': 3}, quick=dict(params={'digits': 4}), thorough=dict(params={'digits': 12})),
}

BOUNDS = {
    'NormalizeGen/NormalizeMD': 'bit exact: every verb letter and operand count, arbitrary float32 operands and transform parameters',
    'Concat': 'exact-real reading, arbitrary matrices',
    'SetPathData': '"M n n <verb> n.. [n.. implicit repeat] z" for each of the 18 verb letters, 4 number forms (d, -d, d.d, .d), optionally the second operand written compactly as .d right after a number with a dot, the first `digits` digits arbitrary (quick 2, thorough 4)',
    'ParsePathData': '"M n n <verb> n.. [n.. repeat] [zM n n] z" for 14 verbs, 3 number forms, optionally the second operand written compactly as .d right after d.d, the first `digits` digits arbitrary (quick 4, thorough 12), symbolic outSize and x offset',
    'Retransform': 'four fixed paths covering every verb class, arbitrary float32 scale/translate before and after; relational against a fresh Generator',
    'ParsePath': 'three paths with opacities 0.5, 0.25, 0.5 and one circle with symbolic position/radius',
}
OUTSIDE = 'that decimal text denotes the float it is parsed to (strconv.ParseFloat / fmt.Fscanf are uninterpreted functions of the token bytes); XML; skeletons other than the enumerated ones; multi-digit exponents, whitespace variants'
EXPLANATION = 'partial: dispatch and transforms fully, text handling by skeleton'
