OVERLAY = ['codec']   # overlay wrapper groups this property's harnesses call (overlay/<pkg>/zz_vp_<tag>.go)
HARNESSES = {
    'ZeroToOne': dict(split={'bucket': 16}),
    'Angle': dict(split={'bucket': 16}),
}
BOUNDS = {
    'float32 inputs': 'all 2^32 bit patterns (one symbolic 32-bit variable per harness)',
    'naturals': 'all values below 2^30',
    'decoder inputs': 'all 1-, 2- and 4-byte patterns (symbolic bytes); truncation lengths 0..3',
    'case split': 'zero-to-one/angle obligations split into 16 buckets (15 positive binades + rest), exhaustive by construction',
}
OUTSIDE = 'nothing within the number codecs; routing of numbers from the public writers to the codecs is checked under C01'
