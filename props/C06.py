HARNESSES = {
    'ZeroRadius': dict(split={'smooth': 3}, oracle=6, job_timeout_s=150),
    'ZeroRadiusRel': dict(mode='X', validate=0),  # rounded-real reading: unknown at 60 s (nlsat); exact-real decides the algebra only
    'Segments': dict(mode='X', validate=0, oracle=8, inproc_ms=4000, ext_s=30, job_timeout_s=300, split={'large': 2, 'sweep': 2}, opts=dict(feas_timeout_ms=300, ifconv=False)),
    'General': dict(mode='X', validate=0, oracle=6, inproc_ms=2000, ext_s=20, split={'rot': 2, 'large': 2, 'sweep': 2}, opts=dict(feas_timeout_ms=300, ifconv=False)),
}
BOUNDS = {
    'ZeroRadius': 'bit exact: every float32 radius pair with a zero/NaN radius, every endpoint, viewBox, rectangle size up to 65536, pen; absolute form',
    'ZeroRadiusRel': 'exact-real reading (rounding not modelled): relative form, moderate magnitudes, 48x20 rectangle',
    'RelIsAbsFromPen': 'bit exact, relational: RelArcTo = AbsArcTo at the endpoint measured from the pen (degenerate branch executed; the general branch is the same delegation)',
    'Segments': 'exact-real reading, sin/cos/acos uninterpreted (range contracts only): every non-degenerate arc with operands of magnitude up to 2^100 is at most four rasteriser calls, all cubics (same harness as C02/ArcSegments)',
    'General': 'exact-real reading, sin/cos/acos uninterpreted (range contracts only): non-degenerate arcs with start, end in [-64,64]^2 (distinct), radii in [1/4,64], '
               'x-axis rotation 0 or 1/8 turn (concrete), all four flag combinations, viewBox (-32,-16)-(32,48) on a 48x20 raster (non-uniform, off-origin); '
               'claims: at most 4 segments, one CubeTo per segment, every control/end point equals (1e-3 px + 1e-4 rel) the point the SVG centre parameterisation '
               '(ref.NewArc: F.6.5/F.6.6 of the SVG implementation notes) prescribes for the equal subdivision, last end point = mapped arc end point. '
               'Assumed, not derived (uninterpreted trigonometry cannot): the end angle Theta1+Delta of the reference parameterises the end point (F.6.5 theorem), cos^2+sin^2=1 for the rotation; '
               'float->int of the segment count by case split -1..8. Violated obligations in this reading are rarely modelled by the solvers (unknown): per case 6 witnesses of the input '
               'assumptions (solver models in random cells) are run through the native harness as oracle; a failure there is reported as a violation, passing witnesses claim nothing.',
}
OUTSIDE = ('non-degenerate arcs: symbolic x-axis rotation (non-linear real queries did not terminate), other viewBox maps, rounding (exact reals), that the sweep has the extent real trigonometry gives it '
           '(large-arc: |Delta| >= pi) - the flags are checked through the reference construction only; arcs with no segment at all (Delta = 0) need acos = 0 and are excluded by real trigonometry only; '
           'chains of arcs (state carried from one arc to the next) are not exercised')
