HARNESSES = {
    'ZeroRadius': dict(split={'smooth': 3}),
    'ZeroRadiusRel': dict(mode='X', validate=0),  # rounded-real reading: unknown at 60 s (nlsat); exact-real decides the algebra only
    'Segments': dict(skip=True),
    'General': dict(mode='X', validate=0, oracle=6, inproc_ms=2000, ext_s=20, split={'rot': 2, 'large': 2, 'sweep': 2}, opts=dict(feas_timeout_ms=300, ifconv=False)),
}
BOUNDS = {
    'ZeroRadius': 'bit exact: every float32 radius pair with a zero/NaN radius, every endpoint, viewBox, rectangle size up to 65536, pen; absolute form',
    'ZeroRadiusRel': 'exact-real reading (rounding not modelled): relative form, moderate magnitudes, 48x20 rectangle',
    'RelIsAbsFromPen': 'bit exact, relational: RelArcTo = AbsArcTo at the endpoint measured from the pen (degenerate branch executed; the general branch is the same delegation)',
}
OUTSIDE = ('non-degenerate arcs: number of cubic segments, end point of the emitted curve, points on the ellipse, sweep direction and large-arc extent are NOT decided '
           '(they need trigonometric identities over uninterpreted sin/cos/acos; the bounded loop over a symbolic segment count did not terminate within the caps). '
           'The concrete arcs of testdata/arcs.ivg are compared bit for bit with the native code in the translator self-test only.')
