HARNESSES = {
    'PerCall': dict(split={'call': 25, 'hires': 2}, quick=dict(params={'hotall': 0}), thorough=dict(params={'hotall': 1}, job_timeout_s=3000)),
    'SetNRegCall': dict(split={'hires': 2, 'group': 16}),
    'Runs': dict(split={'verb': 18}, opts=dict(max_steps=6000000)),
    'Mixed': dict(split={'verb': 18}, quick=dict(params={'K': 2}), thorough=dict(params={'K': 3})),
    'Transcode': dict(split={'op': 16}, quick=dict(params={'L': 2}), thorough=dict(params={'L': 3}, job_timeout_s=3000)),
    'MidPath': dict(split={'verb': 12}),
}

BOUNDS = {
    'PerCall': 'every Destination method x {low, high} resolution; one float operand fully arbitrary (quick: first or last position, thorough: any position), the other operands distinct concrete short-form values; adj, incr, flags, colour of every kind symbolic',
    'SetNRegCall': dict(split={'hires': 2, 'group': 16}),
    'Runs': 'same-verb runs of length 1,2,15,16,17,31,32,33,40,255,256,257,300 for every drawing verb (concrete short-form numbers)',
    'Mixed': 'sequences of K freely chosen drawing verbs (quick 2, thorough 3)',
    'Transcode': 'magic, no metadata, L arbitrary instruction bytes (quick 2, thorough 3) through decode -> Encoder(high resolution) -> decode',
    'MidPath': 'streams ending inside a path after a run of 1..2 operations of every run-forming verb',
}
OUTSIDE = 'programs longer than the stated sequences as a whole (composition with C03 per-instruction grammar, C08 number lemmas and C10 protocol induction is a paper argument); custom metadata is C09/C13'
