HARNESSES = {
    'PerCall': dict(split={'call': 25, 'hires': 2}, quick=dict(params={'hotall': 0}), thorough=dict(params={'hotall': 1}, job_timeout_s=3000)),
    'Runs': dict(split={'verb': 18}),
    'Mixed': dict(split={'verb': 18}, quick=dict(params={'K': 2}), thorough=dict(params={'K': 3})),
    'Transcode': dict(split={'op': 16}, quick=dict(params={'L': 2}), thorough=dict(params={'L': 3}, job_timeout_s=3000)),
    'MidPath': dict(split={'verb': 12}),
}
