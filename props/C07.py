HARNESSES = {
    'SelectorStep': dict(split={'call': 5}),
    'Pipelines': dict(split={'call': 4}, quick=dict(params={'K': 2}), thorough=dict(params={'K': 3})),
    'GradientPipelines': dict(split={'incr': 3}),
    'Logger': dict(split={'call': 26}),
}
