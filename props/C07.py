HARNESSES = {
    'SelectorStep': dict(split={'call': 5}),
    'Pipelines': dict(split={'call': 4}, quick=dict(params={'K': 2}), thorough=dict(params={'K': 4})),
    'GradientPipelines': dict(),
    'Logger': dict(split={'call': 26}),
}

BOUNDS = {
    'SelectorStep': 'any styling call, adj/incr/colour symbolic, from any pair of states with selectors congruent modulo 64 (Renderer selectors arbitrary bytes)',
    'Pipelines': 'K symbolic styling calls (quick 2, thorough 4) then a 3-operation path painted with the resulting registers',
    'GradientPipelines': 'any prior selector state (Renderer selector any byte, Encoder selector the same modulo 64), SetLinearGradient, a path',
    'Logger': 'every method once with arbitrary arguments',
}
OUTSIDE = 'longer histories as a whole (SelectorStep is inductive; the rest composes with C01 and C04)'
