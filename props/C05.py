HARNESSES = {
    'VerbStep': dict(split={'verb': 16, 'smooth': 3}, quick=dict(params={'K': 1}), thorough=dict(params={'K': 3}, split={'verb': 16, 'smooth': 3, 'verb#1': 16, 'verb#2': 16})),
    'StartAndEnd': dict(split={'smooth': 3}),
}

BOUNDS = {
    'VerbStep': 'K consecutive verbs (quick 1, thorough 3) out of the 16 non-arc verbs and the two close-and-move operations, from an arbitrary state: symbolic viewBox, rectangle size 1..65536 and origin within +-2^23, pen, sub-path start, smooth-curve memory; all operands arbitrary float32',
    'StartAndEnd': 'StartPath and ClosePathEndPath from the same arbitrary state',
}
OUTSIDE = 'arcs (C06); sequences longer than K as a whole (the state after one step is again an arbitrary state of the same form, so the step result composes)'
