HARNESSES = {
    'VerbStep': dict(split={'verb': 16, 'smooth': 3}, quick=dict(params={'K': 1}), thorough=dict(params={'K': 2}, split={'verb': 16, 'smooth': 3, 'verb#1': 16})),
    'StartAndEnd': dict(split={'smooth': 3}),
}
