HARNESSES = {
    'EncoderReset': dict(split={'mode': 3, 'call': 25}, quick=dict(params={'K': 1}), thorough=dict(params={'K': 2})),
    'BytesTwice': dict(split={'mode': 3}),
    'RendererReset': dict(),
}
