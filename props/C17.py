HARNESSES = {
    'EncoderReset': dict(split={'mode': 3, 'call': 25, 'history': 2}, quick=dict(params={'K': 1}), thorough=dict(params={'K': 2})),
    'BytesTwice': dict(split={'mode': 3}),
    'RendererReset': dict(split={'stale': 3, 'nstops': 2, 'history': 2}),
}

BOUNDS = {
    'EncoderReset': 'optionally a real earlier use (custom metadata, selector/register traffic, a path abandoned mid-run), then arbitrary dirty Encoder state (mode, error, pending verb, selectors, LOD, both resolution flags, buffer contents), Reset with a symbolic palette entry, then K arbitrary calls (quick 1, thorough 2)',
    'RendererReset': 'optionally a real earlier use (SetLOD with arbitrary bounds, register writes, a gradient paint, a path abandoned mid-way), then arbitrary dirty Renderer state (all registers, palette, selectors, LOD, smooth memory, disabled flag, viewBox), Reset, then a well-formed program using register reads and smooth verbs',
}
OUTSIDE = 'programs longer than K after Reset as a whole (field equality right after Reset is the inductive step)'
