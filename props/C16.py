HARNESSES = {
    'DrawOp': dict(split={'op': 2}),
    'Origin': dict(split={'gradient': 2}),
}
BOUNDS = {
    'DrawOp': 'both compositing operators, two consecutive Draw calls (golang.org/x/image/vector.Rasterizer.Draw is a no-op stub)',
    'Origin': 'one path (line + smooth cubic), flat and 2-stop linear gradient paint, arbitrary viewBox, rectangle size up to 256x256 at any origin within +-2^23',
    'IndirectTwin': 'one register write of any colour kind from an arbitrary machine state, then StartPath with any adjustment',
}
OUTSIDE = ('everything that happens inside golang.org/x/image/vector and image/draw: same calls => same pixels, translation covariance of the rasteriser, clipping to the rectangle, '
           'the fixed/floating-point accumulator threshold; clause (b) power-of-two scaling invariance (bit-exact scaling lemmas for float mul/div time out)')
EXPLANATION = 'partial: only the repository-side obligations of the pixel-invariance property; no obligation examines a pixel'
