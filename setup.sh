#!/bin/sh
# Builds the framework offline from files on disk (run once after a fresh restore).
set -e
cd "$(dirname "$0")"
export GOFLAGS=-mod=mod GOPROXY=off GOSUMDB=off GOTOOLCHAIN=local
mkdir -p bin evidence replays .work
(cd tools/ssaexport && go build -o ../../bin/ssaexport .)
# warm the build cache for native replays
(cd harness && go build ./vp/ ./rec/ >/dev/null 2>&1 || true)
python3-vt -c "import z3; print('z3py', z3.get_version_string())"
echo setup ok
