package c01

import (
	"image/color"
	"math"

	"github.com/reactivego/ivg"
	"github.com/reactivego/ivg/decode"
	"github.com/reactivego/ivg/encode"

	"vph/drive"
	"vph/rec"
	"vph/vp"
)

var _ = vp.Reg("PerCall", H_PerCall)
var _ = vp.Reg("SetNRegCall", H_SetNRegCall)
var _ = vp.Reg("Runs", H_Runs)
var _ = vp.Reg("Mixed", H_Mixed)
var _ = vp.Reg("Transcode", H_Transcode)
var _ = vp.Reg("MidPath", H_MidPath)
var _ = vp.Reg("CustomMetadata", H_CustomMetadata)

func absDiff(a, b uint32) uint32 { return vp.IteU32(a > b, a-b, b-a) }

// within4: the 30-bit float tolerance of the format (see C08).
func within4(f, g float32) bool {
	bf, bg := math.Float32bits(f), math.Float32bits(g)
	nan := f != f
	nonfinite := bg&0x7f800000 == 0x7f800000
	close := vp.And(bf>>31 == bg>>31, absDiff(bf&0x7fffffff, bg&0x7fffffff) <= 4)
	return vp.Or(vp.And(nan, nonfinite), vp.And(!nan, close))
}

// coordOK: decoded coordinate d for an original c under the format's rule.
func coordOK(hires bool, c, d float32) bool {
	low := vp.All(!hires, c >= -128, c < 128)
	// low resolution: a multiple of 1/64 not farther than 1/128 from c
	k := d * 64
	grid := vp.All(float32(int32(k)) == k, d-c <= 1.0/128, c-d <= 1.0/128)
	return vp.Or(vp.And(low, grid), vp.And(!low, vp.Or(d == c, within4(c, d))))
}

func realOK(c, d float32) bool { return vp.Or(d == c, within4(c, d)) }

// H_PerCall: every Destination method with arbitrary arguments (one float
// operand, in a symbolically chosen position, fully arbitrary; the others
// distinct concrete short-form values) through a
// fresh Encoder in minimal legal context, Bytes, Decode: same method, same
// adj / incr / flags / colour, numbers equal up to the format's quantisation.
func H_PerCall() {
	k := drive.KSetCSel + vp.Choice("call", drive.NumCalls-drive.KSetCSel)
	if k == drive.KSetNReg {
		return // H_SetNRegCall (three candidate encodings per number: split by binade group)
	}
	perCall(k)
}

// H_SetNRegCall: SetNReg with a fully arbitrary float32 (the Encoder tries the
// real, coordinate and zero-to-one forms and keeps a shortest one); the 2^32
// values are split into 16 groups by the top four bits (exhaustive).
func H_SetNRegCall() {
	perCall(drive.KSetNReg)
}

func perCall(k int) {
	hires := vp.Choice("hires", 2) == 1
	var a drive.Args
	a.Adj, a.Incr = vp.U8("adj"), vp.Bool("incr")
	a.LargeArc, a.Sweep = vp.Bool("large"), vp.Bool("sweep")
	if drive.UsesAdj(k) {
		vp.Assume(a.Adj <= 6)
		vp.Assume(vp.Implies(a.Incr, a.Adj == 0))
	}
	if k == drive.KSetCReg {
		a.Color = drive.AnyColor()
	}
	n := drive.NArgs(k)
	hot := 0
	if n > 0 {
		if vp.Param("hotall", 1) != 0 {
			hot = vp.Choice("hot", n)
		} else if vp.Choice("hot", 2) == 1 {
			hot = n - 1 // quick tier: first and last operand position only
		}
	}
	for i := 0; i < n; i++ {
		if i == hot {
			a.F[i] = vp.F32("f")
			if k == drive.KSetNReg {
				vp.Assume(int(math.Float32bits(a.F[i])>>28) == vp.Choice("group", 16))
			}
		} else {
			a.F[i] = float32(2*i - 5) // distinct concrete short-form values: swapped operands show
		}
	}
	var e encode.Encoder
	e.HighResolutionCoordinates = hires
	pre := 1 // Reset
	if drive.IsDrawing(k) {
		e.StartPath(0, 1, 2)
		pre = 2
	}
	drive.Do(&e, k, &a)
	if k != drive.KClosePathEndPath && (drive.IsDrawing(k) || k == drive.KStartPath) {
		e.ClosePathEndPath()
	}
	out, err := e.Bytes()
	vp.Assert(err == nil, "a protocol-respecting history is accepted")
	var d rec.Dest
	err = decode.Decode(&d, out)
	vp.Reach("decoded")
	vp.Assert(err == nil, "the encoder's output decodes")
	vp.Assert(len(d.Log) > pre, "the operation is delivered")
	if err != nil || len(d.Log) <= pre {
		return
	}
	var want rec.Dest
	drive.Do(&want, k, &a)
	w, g := want.Log[0], d.Log[pre]
	vp.Assert(g.Op == w.Op, "same operation")
	vp.Assert(vp.All(g.Incr == w.Incr, g.LargeArc == w.LargeArc, g.Sweep == w.Sweep, g.Color == w.Color), "increment / arc flags / colour are identical")
	if k == drive.KSetCSel || k == drive.KSetNSel {
		vp.Assert(g.Adj == w.Adj&0x3f, "selector value (6 bits) is identical")
	} else {
		vp.Assert(g.Adj == w.Adj, "register adjustment is identical")
	}
	ok := true
	for i := 0; i < w.N; i++ {
		switch {
		case k == drive.KSetNReg || k == drive.KSetLOD:
			ok = vp.And(ok, realOK(w.A[i], g.A[i]))
		case (k == drive.KAbsArcTo || k == drive.KRelArcTo) && i == 2:
			// angle: equal modulo one turn; checked for angles already in [0,1)
			ok = vp.And(ok, vp.Implies(vp.And(w.A[i] >= 0, w.A[i] < 1), realOK(w.A[i], g.A[i])))
		default:
			ok = vp.And(ok, coordOK(hires, w.A[i], g.A[i]))
		}
	}
	vp.Assert(ok, "every number equals the original up to the format's quantisation")
}

var runVerbs = [...]int{drive.KAbsLineTo, drive.KRelLineTo, drive.KAbsSmoothQuadTo, drive.KRelSmoothQuadTo, drive.KAbsQuadTo, drive.KRelQuadTo,
	drive.KAbsSmoothCubeTo, drive.KRelSmoothCubeTo, drive.KAbsCubeTo, drive.KRelCubeTo, drive.KAbsArcTo, drive.KRelArcTo,
	drive.KAbsHLineTo, drive.KRelHLineTo, drive.KAbsVLineTo, drive.KRelVLineTo, drive.KClosePathAbsMoveTo, drive.KClosePathRelMoveTo}

var runLens = [...]int{1, 2, 15, 16, 17, 31, 32, 33, 40, 255, 256, 257, 300}

func concreteArgs(k, i int) drive.Args {
	var a drive.Args
	for j := 0; j < drive.NArgs(k); j++ {
		a.F[j] = float32((i*7+j*3)%64 - 32)
	}
	if k == drive.KAbsArcTo || k == drive.KRelArcTo {
		a.F[2] = 0.25
		a.LargeArc, a.Sweep = i%2 == 1, i%3 == 1
	}
	return a
}

// H_Runs: runs of one verb of every length around the 16 / 32 repeat limits
// decode to the issued calls (run splitting logic; concrete short-form numbers).
func H_Runs() {
	k := runVerbs[vp.Choice("verb", len(runVerbs))]
	n := runLens[vp.Choice("len", len(runLens))]
	var e encode.Encoder
	var want rec.Dest
	want.Reset(ivg.DefaultViewBox, ivg.DefaultPalette)
	e.StartPath(0, 1, 2)
	want.StartPath(0, 1, 2)
	for i := 0; i < n; i++ {
		a := concreteArgs(k, i)
		drive.Do(&e, k, &a)
		drive.Do(&want, k, &a)
	}
	e.ClosePathEndPath()
	want.ClosePathEndPath()
	out, err := e.Bytes()
	var d rec.Dest
	err2 := decode.Decode(&d, out)
	vp.Reach("decoded")
	vp.Assert(vp.And(err == nil, err2 == nil), "accepted and decodes")
	vp.Assert(rec.SameLog(d.Log, want.Log), "a run of any length decodes to the issued calls")
}

// H_Mixed: sequences of K drawing operations with the verb of each chosen
// freely (flush on verb change, close-and-move flushes, arcs in the middle).
func H_Mixed() {
	K := vp.Param("K", 2)
	var e encode.Encoder
	var want rec.Dest
	want.Reset(ivg.DefaultViewBox, ivg.DefaultPalette)
	e.StartPath(0, 1, 2)
	want.StartPath(0, 1, 2)
	for i := 0; i < K; i++ {
		k := runVerbs[vp.Choice("verb", len(runVerbs))]
		a := concreteArgs(k, i)
		drive.Do(&e, k, &a)
		drive.Do(&want, k, &a)
	}
	e.ClosePathEndPath()
	want.ClosePathEndPath()
	out, err := e.Bytes()
	var d rec.Dest
	err2 := decode.Decode(&d, out)
	vp.Reach("decoded")
	vp.Assert(vp.And(err == nil, err2 == nil), "accepted and decodes")
	vp.Assert(rec.SameLog(d.Log, want.Log), "a mixed sequence decodes to the issued calls")
}

func sameWithin(a, b []rec.Call) bool {
	if len(a) != len(b) {
		return false
	}
	ok := true
	for i := range a {
		x, y := &a[i], &b[i]
		ok = vp.All(ok, x.Op == y.Op, x.Adj == y.Adj, x.Incr == y.Incr, x.LargeArc == y.LargeArc, x.Sweep == y.Sweep, x.Color == y.Color, x.N == y.N)
		for j := 0; j < 6; j++ {
			ok = vp.And(ok, vp.Or(vp.SameF32(x.A[j], y.A[j]), realOK(x.A[j], y.A[j])))
		}
	}
	return ok
}

// H_Transcode: every stream the decoder accepts (magic, no metadata, L
// arbitrary instruction bytes) can be fed to an Encoder without error, and
// the re-encoded stream decodes to the same operations within the tolerance.
func H_Transcode() {
	L := vp.Param("L", 2)
	tail := vp.Bytes("b", L)
	vp.Assume(int(tail[0]>>4) == vp.Choice("op", 16))
	src := append([]byte{0x89, 0x49, 0x56, 0x47, 0x00}, tail...)
	var d1 rec.Dest
	err := decode.Decode(&d1, src)
	vp.Assume(err == nil)
	var e encode.Encoder
	e.HighResolutionCoordinates = true
	decode.Decode(&e, src)
	out, err := e.Bytes()
	vp.Reach("transcoded")
	vp.Assert(err == nil, "an accepted stream can be fed to an Encoder without error")
	var d2 rec.Dest
	err = decode.Decode(&d2, out)
	vp.Assert(err == nil, "the re-encoded stream decodes")
	vp.Assert(sameWithin(d1.Log, d2.Log), "the re-encoded stream decodes to the same operations within the tolerance")
}

// H_MidPath: a stream that ends inside a path (the decoder accepts it) is
// transcoded without losing the operations of its last run.
func H_MidPath() {
	k := runVerbs[vp.Choice("verb", 12)] // run-forming verbs
	n := 1 + vp.Choice("reps", 2)
	var e0 encode.Encoder
	e0.StartPath(0, 1, 2)
	for i := 0; i < n; i++ {
		a := concreteArgs(k, i)
		drive.Do(&e0, k, &a)
	}
	e0.ClosePathEndPath()
	full, _ := e0.Bytes()
	src := full[:len(full)-1] // cut the final "end path" opcode: the stream ends right after the run
	var d1 rec.Dest
	err := decode.Decode(&d1, src)
	vp.Assert(err == nil, "a stream ending inside a path is accepted by the decoder")
	vp.Assert(len(d1.Log) == 2+n, "Reset, StartPath and the run are delivered")
	var e encode.Encoder
	decode.Decode(&e, src)
	out, err := e.Bytes()
	var d2 rec.Dest
	err2 := decode.Decode(&d2, out)
	vp.Reach("transcoded")
	vp.Assert(vp.And(err == nil, err2 == nil), "transcoding an accepted stream succeeds")
	vp.Assert(rec.SameLog(d1.Log, d2.Log), "the re-encoded stream decodes to the same operations (the pending run is not lost)")
}

// H_CustomMetadata: a custom viewBox (arbitrary short-form coordinates, valid)
// and a suggested palette with two arbitrary premultiplied entries survive
// encode -> decode exactly, together with a following instruction.
func H_CustomMetadata() {
	vb := ivg.ViewBox{MinX: drive.SmallCoord("minx"), MinY: drive.SmallCoord("miny"), MaxX: drive.SmallCoord("maxx"), MaxY: drive.SmallCoord("maxy")}
	vp.Assume(vp.And(vb.MinX <= vb.MaxX, vb.MinY <= vb.MaxY))
	pal := ivg.DefaultPalette
	for i := 0; i < 2; i++ {
		c := color.RGBA{vp.U8("r"), vp.U8("g"), vp.U8("b"), vp.U8("a")}
		vp.Assume(vp.All(c.R <= c.A, c.G <= c.A, c.B <= c.A))
		pal[i] = c
	}
	var e encode.Encoder
	e.Reset(vb, pal)
	e.SetCSel(7)
	out, err := e.Bytes()
	var d rec.Dest
	err2 := decode.Decode(&d, out)
	vp.Reach("decoded")
	vp.Assert(vp.And(err == nil, err2 == nil), "accepted and decodes")
	vp.Assert(vp.All(vp.SameF32(d.ViewBox.MinX, vb.MinX), vp.SameF32(d.ViewBox.MinY, vb.MinY), vp.SameF32(d.ViewBox.MaxX, vb.MaxX), vp.SameF32(d.ViewBox.MaxY, vb.MaxY)),
		"custom viewBox survives")
	vp.Assert(d.Palette == pal, "premultiplied suggested palette survives exactly")
	vp.Assert(len(d.Log) == 2 && d.Log[1].Op == rec.OpSetCSel, "the instruction after the metadata is delivered")
}
