package c01

import (
	"testing"

	"vph/vp"
)

func TestReplay(t *testing.T) { vp.Replay(t) }
