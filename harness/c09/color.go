package c09

import (
	"image/color"

	"github.com/reactivego/ivg"
	"github.com/reactivego/ivg/decode"
	"github.com/reactivego/ivg/encode"

	"vph/rec"
	"vph/ref"
	"vph/vp"
)

var _ = vp.Reg("Color1Table", H_Color1Table)
var _ = vp.Reg("ColorForms", H_ColorForms)
var _ = vp.Reg("SetCRegRoundTrip", H_SetCRegRoundTrip)
var _ = vp.Reg("BlendOperands", H_BlendOperands)
var _ = vp.Reg("BlendFormula", H_BlendFormula)
var _ = vp.Reg("BlendCompose", H_BlendCompose)
var _ = vp.Reg("BlendPremul", H_BlendPremul)
var _ = vp.Reg("Palette", H_Palette)

// H_Color1Table: all 256 one-byte colours against the specification table.
func H_Color1Table() {
	x := vp.U8("x")
	got := ivg.DecodeColor1(x)
	want := ref.Color1(x)
	vp.Reach("decoded")
	vp.Assert(got == want, "1-byte colour decodes as the specification table says")
	// and through the buffer decoder
	b := vp.Bytes("b", 1)
	c, n := decode.VPDecodeColor1(b)
	vp.Assert(n == 1, "1-byte colour consumes one byte")
	vp.Assert(c == ref.Color1(b[0]), "buffer decoder uses the same table")
}

// H_ColorForms: 2-, 3- and 4-byte direct forms and the 3-byte indirect form
// for every byte pattern; truncated input is an error.
func H_ColorForms() {
	L := vp.Choice("len", 5)
	b := vp.Bytes("b", L)
	vp.ReadOnly(b)
	c2, n2 := decode.VPDecodeColor2(b)
	c3, n3 := decode.VPDecodeColor3Direct(b)
	c4, n4 := decode.VPDecodeColor4(b)
	ci, ni := decode.VPDecodeColor3Indirect(b)
	c1, n1 := decode.VPDecodeColor1(b)
	vp.Reach("decoded")
	vp.Assert(vp.All((n1 == 1) == (L >= 1), (n2 == 2) == (L >= 2), (n3 == 3) == (L >= 3), (n4 == 4) == (L >= 4), (ni == 3) == (L >= 3)),
		"colour forms consume their width")
	vp.Assert(vp.All(vp.Or(n1 == 0, n1 == 1), vp.Or(n2 == 0, n2 == 2), vp.Or(n3 == 0, n3 == 3), vp.Or(n4 == 0, n4 == 4), vp.Or(ni == 0, ni == 3)),
		"truncated colours are reported (n == 0)")
	if L >= 1 {
		vp.Assert(c1 == ref.Color1(b[0]), "1-byte form")
	}
	if L >= 2 {
		vp.Assert(c2 == ref.Color2(b[0], b[1]), "2-byte form expands nibbles")
	}
	if L >= 3 {
		vp.Assert(c3 == ref.Color3(b[0], b[1], b[2]), "3-byte direct form is opaque rgb")
		vp.Assert(ci == ivg.BlendColor(b[0], b[1], b[2]), "3-byte indirect form is blend(t,c0,c1)")
	}
	if L >= 4 {
		vp.Assert(c4 == ref.Color4(b[0], b[1], b[2], b[3]), "4-byte form is rgba")
	}
}

func anyColor() ivg.Color {
	switch vp.Choice("kind", 4) {
	case 0:
		return ivg.RGBAColor(color.RGBA{vp.U8("r"), vp.U8("g"), vp.U8("b"), vp.U8("a")})
	case 1:
		return ivg.PaletteIndexColor(vp.U8("i"))
	case 2:
		return ivg.CRegColor(vp.U8("i"))
	}
	return ivg.BlendColor(vp.U8("t"), vp.U8("c0"), vp.U8("c1"))
}

// H_SetCRegRoundTrip: any colour written by Encoder.SetCReg decodes to the
// identical colour, with the same adj/incr, and uses the first applicable of
// the forms 1, 2, 3-direct, 4, 3-indirect.
func H_SetCRegRoundTrip() {
	c := anyColor()
	adj := vp.U8("adj")
	incr := vp.Bool("incr")
	vp.Assume(adj <= 6)
	vp.Assume(vp.Implies(incr, adj == 0))
	var e encode.Encoder
	e.SetCReg(adj, incr, c)
	out, err := e.Bytes()
	vp.Assert(err == nil, "SetCReg with a legal adjustment is accepted")
	var d rec.Dest
	err = decode.Decode(&d, out)
	vp.Reach("decoded")
	vp.Assert(err == nil, "encoded SetCReg decodes")
	vp.Assert(len(d.Log) == 2, "exactly Reset and one SetCReg are delivered")
	if len(d.Log) != 2 {
		return
	}
	got := d.Log[1]
	vp.Assert(got.Op == rec.OpSetCReg, "the operation is SetCReg")
	vp.Assert(got.Color == c, "colour decodes to exactly the colour written")
	vp.Assert(vp.And(got.Adj == adj, got.Incr == incr), "adj and incr survive")
	// form order
	_, is1 := c.Encode1()
	_, is2 := c.Encode2()
	_, is3 := c.Encode3Direct()
	_, is4 := c.Encode4()
	want := 1 + 3
	want = vp.IteInt(is4, 1+4, want)
	want = vp.IteInt(is3, 1+3, want)
	want = vp.IteInt(is2, 1+2, want)
	want = vp.IteInt(is1, 1+1, want)
	vp.Assert(len(out) == 5+want, "shortest applicable colour form is used")
}

func symRegs(p string) (a [64]color.RGBA) {
	for i := range a {
		a[i] = color.RGBA{vp.U8(p + "r"), vp.U8(p + "g"), vp.U8(p + "b"), vp.U8(p + "a")}
	}
	return a
}

// The blend property is decided as a chain of three lemmas, each for all
// inputs, whose composition is the property (DESIGN section 6, C09):
//
//  1. H_BlendOperands: a 1-byte operand resolves as the specification says
//     (table value, palette entry, register) for all bytes, palettes, registers.
//  2. H_BlendFormula: with register operands the result is the formula applied
//     per channel to those registers, for all t and register contents.
//  3. H_BlendCompose: resolving blend(t,c0,c1) equals resolving blend(t,CREG0,CREG1)
//     after the implementation's own resolution of c0 and c1 has been placed in
//     those registers (the blend resolves its operands and nothing else).

func H_BlendOperands() {
	pal, creg := symRegs("p"), symRegs("c")
	x := vp.U8("x")
	got := ivg.DecodeColor1(x).Resolve(&pal, &creg)
	want := ref.Resolve1(x, &pal, &creg)
	vp.Reach("resolved")
	vp.Assert(got == want, "1-byte operand resolves to table value / palette entry / register")
	i := vp.U8("i")
	vp.Assert(ivg.PaletteIndexColor(i).Resolve(&pal, &creg) == pal[i&63], "palette colour resolves to the palette entry")
	vp.Assert(ivg.CRegColor(i).Resolve(&pal, &creg) == creg[i&63], "register colour resolves to the register")
	c := color.RGBA{vp.U8("r"), vp.U8("g"), vp.U8("b"), vp.U8("a")}
	vp.Assert(ivg.RGBAColor(c).Resolve(&pal, &creg) == c, "direct colour resolves to itself")
}

func H_BlendFormula() {
	var pal, creg [64]color.RGBA
	r0 := color.RGBA{vp.U8("r0"), vp.U8("g0"), vp.U8("b0"), vp.U8("a0")}
	r1 := color.RGBA{vp.U8("r1"), vp.U8("g1"), vp.U8("b1"), vp.U8("a1")}
	creg[0], creg[1] = r0, r1
	t := vp.U8("t")
	got := ivg.BlendColor(t, 0xc0, 0xc1).Resolve(&pal, &creg)
	vp.Reach("resolved")
	want := color.RGBA{ref.Blend(t, r0.R, r1.R), ref.Blend(t, r0.G, r1.G), ref.Blend(t, r0.B, r1.B), ref.Blend(t, r0.A, r1.A)}
	vp.Assert(got == want, "blend is ((255-t)*c0 + t*c1 + 128)/255 per channel")
	vp.Assert(vp.Implies(t == 0, got == r0), "t = 0 gives c0")
	vp.Assert(vp.Implies(t == 255, got == r1), "t = 255 gives c1")
}

func H_BlendCompose() {
	pal, creg := symRegs("p"), symRegs("c")
	t, c0, c1 := vp.U8("t"), vp.U8("c0"), vp.U8("c1")
	got := ivg.BlendColor(t, c0, c1).Resolve(&pal, &creg)
	var creg2 [64]color.RGBA
	creg2[0] = ivg.DecodeColor1(c0).Resolve(&pal, &creg)
	creg2[1] = ivg.DecodeColor1(c1).Resolve(&pal, &creg)
	want := ivg.BlendColor(t, 0xc0, 0xc1).Resolve(&pal, &creg2)
	vp.Reach("resolved")
	vp.Assert(got == want, "a blend resolves its two operands (as 1-byte colours) and blends the results")
}

// H_BlendPremul: blending premultiplied operands never gives a
// non-premultiplied result (channel c <= alpha is preserved).
func H_BlendPremul() {
	t := vp.U8("t")
	x0, a0, x1, a1 := vp.U8("x0"), vp.U8("a0"), vp.U8("x1"), vp.U8("a1")
	vp.Assume(vp.And(x0 <= a0, x1 <= a1))
	var pal, creg [64]color.RGBA
	creg[0] = color.RGBA{x0, x0, x0, a0}
	creg[1] = color.RGBA{x1, x1, x1, a1}
	got := ivg.BlendColor(t, 0xc0, 0xc1).Resolve(&pal, &creg)
	vp.Reach("resolved")
	vp.Assert(vp.All(got.R <= got.A, got.G <= got.A, got.B <= got.A), "blend of premultiplied colours is premultiplied")
}

// H_Palette: a suggested palette with n+1 explicit valid premultiplied
// entries survives Reset -> Bytes -> Decode exactly.
func H_Palette() {
	n := vp.Param("n", 2)
	pal := ivg.DefaultPalette
	for i := 0; i < n; i++ {
		c := color.RGBA{vp.U8("r"), vp.U8("g"), vp.U8("b"), vp.U8("a")}
		vp.Assume(vp.All(c.R <= c.A, c.G <= c.A, c.B <= c.A))
		pal[i] = c
	}
	var e encode.Encoder
	vb := ivg.DefaultViewBox
	if vp.Choice("vb", 2) == 1 { // the palette chunk then follows a viewBox chunk
		vb = ivg.ViewBox{MinX: -24, MinY: -16, MaxX: 24, MaxY: 16}
	}
	e.Reset(vb, pal)
	out, err := e.Bytes()
	vp.Assert(err == nil, "Reset with a valid palette is accepted")
	var d rec.Dest
	err = decode.Decode(&d, out)
	vp.Reach("decoded")
	vp.Assert(err == nil, "encoded palette decodes")
	vp.Assert(d.Resets == 1, "Reset delivered once")
	vp.Assert(d.Palette == pal, "suggested palette survives the round trip exactly")
}
