// Package selftest validates the translator: concrete inputs (the repository's
// own testdata) are pushed through the symbolic executor and through the
// natively compiled code, and digests of everything observable must agree.
package selftest

import (
	"image"
	"math"

	"github.com/reactivego/ivg/decode"
	"github.com/reactivego/ivg/encode"
	"github.com/reactivego/ivg/render"

	"vph/rec"
	"vph/vp"
)

var _ = vp.Reg("Corpus", H_Corpus)

func mix(h uint64, v uint64) uint64 {
	h ^= v
	h *= 1099511628211
	return h
}

func hashDest(d *rec.Dest) uint64 {
	h := uint64(14695981039346656037)
	for i := range d.Log {
		c := &d.Log[i]
		h = mix(h, uint64(c.Op))
		h = mix(h, uint64(c.Adj))
		if c.Incr {
			h = mix(h, 1)
		}
		if c.LargeArc {
			h = mix(h, 2)
		}
		if c.Sweep {
			h = mix(h, 3)
		}
		x, ok := c.Color.Encode4()
		if ok {
			h = mix(h, uint64(x[0])|uint64(x[1])<<8|uint64(x[2])<<16|uint64(x[3])<<24)
		}
		y, ok := c.Color.Encode3Indirect()
		if ok {
			h = mix(h, uint64(y[0])|uint64(y[1])<<8|uint64(y[2])<<16)
		}
		z, ok := c.Color.Encode1()
		if ok {
			h = mix(h, uint64(z))
		}
		for k := 0; k < c.N; k++ {
			h = mix(h, uint64(math.Float32bits(c.A[k])))
		}
	}
	return h
}

func hashRaster(z *rec.Raster, shift uint) uint64 {
	h := uint64(14695981039346656037)
	for i := range z.Log {
		c := &z.Log[i]
		h = mix(h, uint64(c.Op))
		for k := 0; k < c.N; k++ {
			h = mix(h, uint64(math.Float32bits(c.A[k])>>shift))
		}
		h = mix(h, uint64(c.W))
		h = mix(h, uint64(c.H))
		if c.Op == rec.ROpDraw {
			h = mix(h, uint64(c.R.Min.X))
			h = mix(h, uint64(c.R.Max.Y))
			r, g, b, a := c.Src.At(3, 5).RGBA()
			h = mix(h, uint64(r)|uint64(g)<<16|uint64(b)<<32|uint64(a)<<48)
			r, g, b, a = c.Src.At(20, 9).RGBA()
			h = mix(h, uint64(r)|uint64(g)<<16|uint64(b)<<32|uint64(a)<<48)
		}
	}
	return h
}

// H_Corpus: one concrete graphic (bytes preset by the driver from a file).
func H_Corpus() {
	n := vp.Param("len", 0)
	src := vp.Bytes("src", n)
	vp.ReadOnly(src)

	var d rec.Dest
	err := decode.Decode(&d, src)
	vp.NoteU64("decodeErr", b2u(err != nil))
	vp.NoteU64("ncalls", uint64(len(d.Log)))
	vp.NoteU64("dest", hashDest(&d))

	var z render.Renderer
	var ras rec.Raster
	z.SetRasterizer(&ras, image.Rect(3, 7, 51, 39))
	err = decode.Decode(&z, src)
	vp.NoteU64("renderErr", b2u(err != nil))
	vp.NoteU64("nraster", uint64(len(ras.Log)))
	vp.NoteU64("raster", hashRaster(&ras, uint(vp.Param("shift", 0))))

	var e encode.Encoder
	e.HighResolutionCoordinates = vp.Param("hires", 0) != 0
	err = decode.Decode(&e, src)
	out, err2 := e.Bytes()
	vp.NoteU64("encErr", b2u(err != nil)|b2u(err2 != nil)<<1)
	h := uint64(14695981039346656037)
	for _, b := range out {
		h = mix(h, uint64(b))
	}
	vp.NoteU64("nbytes", uint64(len(out)))
	vp.NoteU64("bytes", h)

	vb, err := decode.DecodeViewBox(src)
	vp.NoteU64("vb", uint64(math.Float32bits(vb.MinX))|uint64(math.Float32bits(vb.MaxY))<<32)
	vp.Reach("end")
}

func b2u(b bool) uint64 {
	if b {
		return 1
	}
	return 0
}
