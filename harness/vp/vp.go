// Package vp is the harness API. Under the symbolic executor every function
// in this package is intercepted (its body is never executed); compiled
// natively the functions read their nondeterministic values from the replay
// case selected by VP_REPLAY, so that a solver model can be re-run against the
// real code by the ordinary Go toolchain.
package vp

import (
	"encoding/json"
	"fmt"
	"math"
	"os"
	"strconv"
	"strings"
	"testing"
)

type replayCase struct {
	Harness string            `json:"harness"`
	Values  map[string]string `json:"values"` // name -> decimal (bit pattern for floats)
	Params  map[string]int    `json:"params"`
}

type abort struct {
	kind string
	msg  string
}

var (
	registry = map[string]func(){}
	cur      *replayCase
	counts   map[string]int
	reached  []string
	notes    []string
)

// Reg registers a harness under pkg-local name. Used as `var _ = vp.Reg(...)`.
func Reg(name string, f func()) bool {
	registry[name] = f
	return true
}

func key(name string) string {
	n := counts[name]
	counts[name] = n + 1
	if n == 0 {
		return name
	}
	return name + "#" + strconv.Itoa(n)
}

func val(name string) uint64 {
	k := key(name)
	if cur == nil {
		return 0
	}
	s, ok := cur.Values[k]
	if !ok {
		return 0
	}
	u, err := strconv.ParseUint(s, 10, 64)
	if err != nil {
		panic(abort{"error", "bad replay value for " + k + ": " + s})
	}
	return u
}

func U8(name string) uint8    { return uint8(val(name)) }
func U16(name string) uint16  { return uint16(val(name)) }
func U32(name string) uint32  { return uint32(val(name)) }
func U64(name string) uint64  { return val(name) }
func I32(name string) int32   { return int32(uint32(val(name))) }
func I64(name string) int64   { return int64(val(name)) }
func Int(name string) int     { return int(int64(val(name))) }
func Bool(name string) bool   { return val(name) != 0 }
func F32(name string) float32 { return math.Float32frombits(uint32(val(name))) }
func F64(name string) float64 { return math.Float64frombits(val(name)) }

// Bytes returns a fresh slice of n arbitrary bytes.
func Bytes(name string, n int) []byte {
	b := make([]byte, n)
	for i := range b {
		b[i] = uint8(val(name + "[" + strconv.Itoa(i) + "]"))
	}
	return b
}

// Choice returns an arbitrary int in [0,n). The executor forks into the n
// concrete cases (and may distribute them over processes).
func Choice(name string, n int) int {
	v := int(val(name))
	if v < 0 || v >= n {
		panic(abort{"spurious", "choice out of range"})
	}
	return v
}

// Param returns a bound of the current tier (or def when the tier has none).
func Param(name string, def int) int {
	if cur != nil {
		if v, ok := cur.Params[name]; ok {
			return v
		}
	}
	return def
}

// Assume restricts the inputs considered.
func Assume(c bool) {
	if !c {
		panic(abort{"spurious", "assumption does not hold"})
	}
}

// AssumeEq assumes a == b: exactly in the exact-real reading (where it states a
// mathematical lemma), up to tol*(1+|b|) natively (where both sides carry
// floating-point rounding).
func AssumeEq(a, b, tol float64) {
	d := a - b
	if d < 0 {
		d = -d
	}
	m := b
	if m < 0 {
		m = -m
	}
	if !(d <= tol*(1+m)) {
		panic(abort{"spurious", "assumed lemma does not hold numerically"})
	}
}

// Assert states the property.
func Assert(c bool, msg string) {
	if !c {
		panic(abort{"fail", msg})
	}
}

// Check is Assert without the executor continuing under the asserted
// condition (independent obligations stay small).
func Check(c bool, msg string) { Assert(c, msg) }

// Reach is the vacuity guard: the executor requires every label to be
// reachable on some feasible path.
func Reach(label string) { reached = append(reached, label) }

// NoteU64 records a value; the driver compares it with the value the symbolic
// execution of the same path computes (translator validation).
func NoteU64(label string, v uint64) {
	notes = append(notes, label+"="+strconv.FormatUint(v, 10))
}

// All is a non-short-circuit conjunction (one SMT term, no path forks).
func All(cs ...bool) bool {
	for _, c := range cs {
		if !c {
			return false
		}
	}
	return true
}

// Any is a non-short-circuit disjunction.
func Any(cs ...bool) bool {
	for _, c := range cs {
		if c {
			return true
		}
	}
	return false
}

func Implies(a, b bool) bool { return !a || b }
func And(a, b bool) bool     { return a && b }
func Or(a, b bool) bool      { return a || b }

func IteU8(c bool, a, b uint8) uint8 {
	if c {
		return a
	}
	return b
}
func IteU32(c bool, a, b uint32) uint32 {
	if c {
		return a
	}
	return b
}
func IteInt(c bool, a, b int) int {
	if c {
		return a
	}
	return b
}
func IteF64(c bool, a, b float64) float64 {
	if c {
		return a
	}
	return b
}
func IteF32(c bool, a, b float32) float32 {
	if c {
		return a
	}
	return b
}

func AbsF32(a float32) float32 { return float32(math.Abs(float64(a))) }

// SameF32 is bit identity up to NaN payload (NaN == NaN, +0 != -0).
func SameF32(a, b float32) bool {
	if a != a && b != b {
		return true
	}
	return math.Float32bits(a) == math.Float32bits(b)
}
func SameF64(a, b float64) bool {
	if a != a && b != b {
		return true
	}
	return math.Float64bits(a) == math.Float64bits(b)
}

// Err is the error type produced by stubbed fmt.Errorf under the executor.
type Err string

func (e Err) Error() string { return string(e) }

// ReadOnly marks the backing array of b read-only: a store into it on any
// feasible path is an obligation failure in the executor. Natively the caller
// checks the contents itself where needed.
func ReadOnly(b []byte) {}

// ExactBegin/ExactEnd bracket harness arithmetic that is meant exactly: in
// the rounded-real reading no rounding error is attached to operations
// between them. Natively they are no-ops (the native tolerance absorbs it).
func ExactBegin() {}
func ExactEnd()   {}

// ExpectPanic tells the executor that panics are acceptable in this harness
// (they end the path silently). Natively it is a no-op.
func ExpectPanic() {}

// NearF32 reports whether a and b are equal as bits, both NaN, or within
// abs + rel*max(|a|,|b|).
func NearF32(a, b float32, rel, abs float64) bool {
	if a == b || (a != a && b != b) {
		return true
	}
	x, y := float64(a), float64(b)
	m := math.Max(math.Abs(x), math.Abs(y))
	return math.Abs(x-y) <= abs+rel*m
}

// Replay runs the cases in the file named by VP_REPLAY and prints one
// VP-RESULT line per case.
func Replay(t *testing.T) {
	path := os.Getenv("VP_REPLAY")
	if path == "" {
		t.Skip("VP_REPLAY not set")
	}
	data, err := os.ReadFile(path)
	if err != nil {
		t.Fatal(err)
	}
	var cases []replayCase
	if err := json.Unmarshal(data, &cases); err != nil {
		t.Fatal(err)
	}
	for i := range cases {
		c := &cases[i]
		f, ok := registry[c.Harness]
		if !ok {
			fmt.Printf("VP-RESULT %d SKIP harness %s not in this package\n", i, c.Harness)
			continue
		}
		kind, msg := runOne(c, f)
		fmt.Printf("VP-RESULT %d %s %s @@labels=%s @@notes=%s\n", i, kind, strings.ReplaceAll(msg, "\n", " "), strings.Join(reached, ","), strings.Join(notes, ","))
	}
}

func runOne(c *replayCase, f func()) (kind, msg string) {
	cur = c
	counts = map[string]int{}
	reached = nil
	notes = nil
	defer func() {
		cur = nil
		if r := recover(); r != nil {
			if a, ok := r.(abort); ok {
				kind, msg = a.kind, a.msg
				return
			}
			kind, msg = "panic", fmt.Sprint(r)
		}
	}()
	f()
	return "pass", ""
}
