package c11

import (
	"github.com/reactivego/ivg"
	"github.com/reactivego/ivg/decode"

	"vph/rec"
	"vph/vp"
)

var _ = vp.Reg("Listing", H_Listing)
var _ = vp.Reg("SameVerdict", H_SameVerdict)
var _ = vp.Reg("ArcListing", H_ArcListing)
var _ = vp.Reg("Text", H_Text)
var _ = vp.Reg("PaletteListing", H_PaletteListing)

// listing is what a recording printer saw.
type listing struct {
	bytes  []byte    // concatenation of the byte columns
	maxLen int       // longest byte slice handed to the printer
	lines  int       // instruction lines (opcode or "implicit") after Reset was delivered
	floats []float32 // float32 operands printed on operand lines
	u32s   []uint32  // uint32 operands printed on operand lines (arc flags: value, largeArc bit, sweep bit)
	colors []ivg.Color
	rgba   []uint8 // operand lines with exactly four uint8 operands (suggested palette entries): R, G, B, A
	dest   *rec.Dest
}

func (l *listing) print(b []byte, format string, args ...interface{}) {
	l.bytes = append(l.bytes, b...)
	if len(b) > l.maxLen {
		l.maxLen = len(b)
	}
	operand := len(format) > 0 && format[0] == ' '
	if !operand && l.dest != nil && len(l.dest.Log) > 0 {
		l.lines++
	}
	if operand && len(args) == 4 {
		r, ok0 := args[0].(uint8)
		g, ok1 := args[1].(uint8)
		b, ok2 := args[2].(uint8)
		a, ok3 := args[3].(uint8)
		if ok0 && ok1 && ok2 && ok3 {
			l.rgba = append(l.rgba, r, g, b, a)
		}
	}
	if operand {
		for _, a := range args {
			switch v := a.(type) {
			case float32:
				l.floats = append(l.floats, v)
			case uint32:
				l.u32s = append(l.u32s, v)
			case ivg.Color:
				l.colors = append(l.colors, v)
			}
		}
	}
}

// H_Listing: decode with a destination and a recording printer on magic,
// no metadata, L arbitrary instruction bytes: the byte columns reproduce the
// input, each column entry is at most 4 bytes, there is one instruction line
// per delivered operation, and printed operands are the delivered operands.
func H_Listing() {
	L := vp.Param("L", 5)
	tail := vp.Bytes("b", L)
	vp.Assume(int(tail[0]>>4) == vp.Choice("op", 16))
	src := append([]byte{0x89, 0x49, 0x56, 0x47, 0x00}, tail...)
	vp.ReadOnly(src)
	checkListing(src)
}

func checkListing(src []byte) {
	var d rec.Dest
	l := listing{dest: &d}
	m := ivg.DefaultMetadata
	err := decode.VPDecode(&d, l.print, &m, false, src)
	var d0 rec.Dest
	err0 := decode.Decode(&d0, src)
	vp.Assert((err == nil) == (err0 == nil), "a printer does not change acceptance")
	vp.Assert(rec.SameLog(d.Log, d0.Log), "a printer does not change what is delivered")
	vp.Assert(l.maxLen <= 4, "no listing line shows more than 4 bytes")
	if err != nil {
		vp.Reach("rejected")
		return
	}
	vp.Reach("accepted")
	vp.Assert(len(l.bytes) == len(src), "the byte columns together have the input's length")
	if len(l.bytes) == len(src) {
		same := true
		for i := range src {
			same = vp.And(same, l.bytes[i] == src[i])
		}
		vp.Assert(same, "the byte columns, concatenated in line order, reproduce the input")
	}
	vp.Assert(l.lines == len(d.Log)-1, "one instruction line per delivered operation (explicit or implicit repeat)")
	// operand values: floats of non-arc operations and colours, in order
	var floats []float32
	var colors []ivg.Color
	var flags []bool
	for i := range d.Log {
		c := &d.Log[i]
		if c.Op == rec.OpAbsArcTo || c.Op == rec.OpRelArcTo {
			// rx, ry, the angle (printed as a fraction and in degrees), x, y
			floats = append(floats, c.A[0], c.A[1], c.A[2], c.A[2]*360, c.A[3], c.A[4])
			flags = append(flags, c.LargeArc, c.Sweep)
		} else {
			for j := 0; j < c.N; j++ {
				floats = append(floats, c.A[j])
			}
		}
		if c.Op == rec.OpSetCReg {
			colors = append(colors, c.Color)
		}
	}
	vp.Assert(len(floats) == len(l.floats), "every delivered number is printed once")
	if len(floats) == len(l.floats) {
		same := true
		for i := range floats {
			same = vp.And(same, vp.SameF32(floats[i], l.floats[i]))
		}
		vp.Assert(same, "printed numbers are the delivered numbers")
	}
	// arc flags: each arc prints (value, largeArc, sweep); the two bits are the delivered flags
	vp.Assert(len(l.u32s)*2 == len(flags)*3, "every arc prints its flags once")
	if len(l.u32s)*2 == len(flags)*3 {
		same := true
		for i := 0; i*2 < len(flags); i++ {
			la, sw := uint32(0), uint32(0)
			same = vp.All(same, l.u32s[3*i+1] == vp.IteU32(flags[2*i], 1, la), l.u32s[3*i+2] == vp.IteU32(flags[2*i+1], 1, sw))
		}
		vp.Assert(same, "printed arc flags are the delivered arc flags")
	}
	vp.Assert(len(colors) == len(l.colors), "every delivered colour is printed once")
	if len(colors) == len(l.colors) {
		same := true
		for i := range colors {
			same = vp.And(same, colors[i] == l.colors[i])
		}
		vp.Assert(same, "printed colours are the delivered colours")
	}
}

// H_ArcListing: an arc instruction (too long for the generic window) with
// arbitrary 1-byte operands and a flags natural of any width, inside a path.
func H_ArcListing() {
	width := 1 << vp.Choice("width", 3)
	fl := vp.Bytes("flags", width)
	want := byte(0)
	if width == 2 {
		want = 1
	} else if width == 4 {
		want = 3
	}
	vp.Assume(fl[0]&3 == want || (width == 1 && fl[0]&1 == 0))
	ops := vp.Bytes("n", 5)
	for i := range ops {
		vp.Assume(ops[i]&1 == 0)
	}
	rel := byte(vp.Choice("rel", 2)) << 4
	src := []byte{0x89, 0x49, 0x56, 0x47, 0x00, 0xc0, 0x80, 0x80, 0xc0 + rel, ops[0], ops[1], ops[2]}
	src = append(src, fl...)
	src = append(src, ops[3], ops[4], 0xe1)
	vp.ReadOnly(src)
	checkListing(src)
}

// H_SameVerdict: Disassemble succeeds exactly when Decode does and fails with
// the same error, on fully arbitrary input (magic and metadata included).
func H_SameVerdict() {
	W := vp.Param("W", 7)
	L := vp.Choice("len", W+1)
	src := vp.Bytes("b", L)
	vp.ReadOnly(src)
	var d rec.Dest
	err := decode.Decode(&d, src)
	_, err2 := decode.Disassemble(src)
	vp.Reach("decoded")
	vp.Assert(err == err2, "Disassemble fails with the same error as Decode, and succeeds exactly when it does")
}

// H_Text: the text Disassemble itself returns (its own hex column and line
// structure, not a recording printer): on magic, no metadata, L arbitrary
// instruction bytes, optionally after an earlier Disassemble call in the same
// process (accepted or rejected; pooled or cached state would show here). The
// text is a sequence of lines "14-column hex field, annotation, newline"; the
// hex fields, concatenated, reproduce the input byte for byte, nothing else
// is in them, and the lines whose annotation is not indented are the two
// header lines plus one per delivered operation.
func H_Text() {
	L := vp.Param("L", 4)
	tail := vp.Bytes("b", L)
	vp.Assume(int(tail[0]>>4) == vp.Choice("op", 16))
	src := append([]byte{0x89, 0x49, 0x56, 0x47, 0x00}, tail...)
	vp.ReadOnly(src)
	if vp.Choice("prior", 2) == 1 {
		pb := vp.Bytes("p", vp.Param("P", 1))
		prior := append([]byte{0x89, 0x49, 0x56, 0x47, 0x00}, pb...)
		decode.Disassemble(prior)
	}
	text, err := decode.Disassemble(src)
	var d rec.Dest
	err0 := decode.Decode(&d, src)
	vp.Reach("disassembled")
	vp.Assert(err == err0, "Disassemble fails with the same error as Decode, and succeeds exactly when it does")
	if err != nil {
		vp.Assert(len(text) == 0, "no listing is returned with an error")
		return
	}
	vp.Reach("listed")
	const hex = "0123456789abcdef"
	pos, j, heads := 0, 0, 0
	wellFormed, same := true, true
	for pos < len(text) {
		if pos+14 > len(text) {
			wellFormed = false
			break
		}
		col := text[pos : pos+14]
		k := 0
		for k < 4 && col[3*k] != ' ' {
			k++
		}
		if j+k > len(src) {
			wellFormed = false
			break
		}
		for i := 0; i < k; i++ {
			same = vp.All(same, col[3*i] == hex[src[j]>>4], col[3*i+1] == hex[src[j]&15], col[3*i+2] == ' ')
			j++
		}
		for i := 3 * k; i < 14; i++ {
			same = vp.And(same, col[i] == ' ')
		}
		pos += 14
		if pos < len(text) && text[pos] != ' ' {
			heads++
		}
		for pos < len(text) && text[pos] != '\n' {
			pos++
		}
		if pos >= len(text) {
			wellFormed = false // last line not terminated
			break
		}
		pos++
	}
	vp.Assert(wellFormed, "the listing is a sequence of lines: 14-column hex field, annotation, newline")
	vp.Assert(j == len(src), "the hex fields together show as many bytes as the input has")
	vp.Assert(same, "the hex fields, concatenated in line order, reproduce the input exactly")
	vp.Assert(heads == 2+len(d.Log)-1, "two header lines and one instruction line per delivered operation")
}

// H_PaletteListing: a suggested-palette chunk with n colours in any of the four
// forms and arbitrary colour bytes (valid, non-premultiplied, gradient-shaped,
// indirect): the byte columns reproduce the input and the listing prints, for
// every palette entry, exactly the RGBA value the decoder delivers through Reset.
func H_PaletteListing() {
	n := 1 + vp.Choice("n", vp.Param("N", 2))
	format := vp.Choice("format", 4)
	body := vp.Bytes("col", n*(1+format))
	src := []byte{0x89, 0x49, 0x56, 0x47, 0x02, byte(2+len(body)) << 1, 0x02, byte(n-1) | byte(format)<<6}
	src = append(src, body...)
	vp.ReadOnly(src)
	var d rec.Dest
	l := listing{dest: &d}
	m := ivg.DefaultMetadata
	err := decode.VPDecode(&d, l.print, &m, false, src)
	vp.Reach("decoded")
	vp.Assert(err == nil, "a well-formed palette chunk is accepted")
	if err != nil || len(d.Log) != 1 {
		return
	}
	vp.Assert(len(l.bytes) == len(src), "the byte columns together have the input's length")
	if len(l.bytes) == len(src) {
		same := true
		for i := range src {
			same = vp.And(same, l.bytes[i] == src[i])
		}
		vp.Assert(same, "the byte columns, concatenated in line order, reproduce the input")
	}
	vp.Assert(len(l.rgba) == 4*n && len(l.colors) == 0, "every palette entry is printed once, as an RGBA value")
	if len(l.rgba) == 4*n {
		same := true
		for i := 0; i < n; i++ {
			c := d.Palette[i]
			same = vp.All(same, l.rgba[4*i] == c.R, l.rgba[4*i+1] == c.G, l.rgba[4*i+2] == c.B, l.rgba[4*i+3] == c.A)
		}
		vp.Assert(same, "printed palette colours are the colours delivered through Reset")
	}
}
