// Package rec holds recording implementations of ivg.Destination and
// raster.Rasterizer used by the harnesses (ordinary Go, executed symbolically
// by the engine and natively in replays).
package rec

import (
	"image"
	"image/color"

	"github.com/reactivego/ivg"

	"vph/vp"
)

// Operation codes of recorded Destination calls.
const (
	OpReset uint8 = iota + 1
	OpSetCSel
	OpSetNSel
	OpSetCReg
	OpSetNReg
	OpSetLOD
	OpStartPath
	OpClosePathEndPath
	OpClosePathAbsMoveTo
	OpClosePathRelMoveTo
	OpAbsHLineTo
	OpRelHLineTo
	OpAbsVLineTo
	OpRelVLineTo
	OpAbsLineTo
	OpRelLineTo
	OpAbsSmoothQuadTo
	OpRelSmoothQuadTo
	OpAbsQuadTo
	OpRelQuadTo
	OpAbsSmoothCubeTo
	OpRelSmoothCubeTo
	OpAbsCubeTo
	OpRelCubeTo
	OpAbsArcTo
	OpRelArcTo
)

// Call is one recorded Destination call.
type Call struct {
	Op       uint8
	Adj      uint8 // adj, or selector value for SetCSel/SetNSel
	Incr     bool
	LargeArc bool
	Sweep    bool
	N        int // number of float arguments
	Color    ivg.Color
	A        [6]float32
}

// Dest records the calls it receives. CSel/NSel follow the specification's
// register machine (mod 64) so that helpers that read selectors work.
type Dest struct {
	Log     []Call
	ViewBox ivg.ViewBox
	Palette [64]color.RGBA
	Resets  int
	cSel    uint8
	nSel    uint8
}

func (d *Dest) add(c Call) { d.Log = append(d.Log, c) }

func (d *Dest) Reset(viewbox ivg.ViewBox, palette [64]color.RGBA) {
	d.ViewBox = viewbox
	d.Palette = palette
	d.Resets++
	d.cSel, d.nSel = 0, 0
	d.add(Call{Op: OpReset})
}
func (d *Dest) CSel() uint8 { return d.cSel }
func (d *Dest) NSel() uint8 { return d.nSel }
func (d *Dest) SetCSel(cSel uint8) {
	d.cSel = cSel & 0x3f
	d.add(Call{Op: OpSetCSel, Adj: cSel})
}
func (d *Dest) SetNSel(nSel uint8) {
	d.nSel = nSel & 0x3f
	d.add(Call{Op: OpSetNSel, Adj: nSel})
}
func (d *Dest) SetCReg(adj uint8, incr bool, c ivg.Color) {
	if incr {
		d.cSel = (d.cSel + 1) & 0x3f
	}
	d.add(Call{Op: OpSetCReg, Adj: adj, Incr: incr, Color: c})
}
func (d *Dest) SetNReg(adj uint8, incr bool, f float32) {
	if incr {
		d.nSel = (d.nSel + 1) & 0x3f
	}
	d.add(Call{Op: OpSetNReg, Adj: adj, Incr: incr, N: 1, A: [6]float32{f}})
}
func (d *Dest) SetLOD(lod0, lod1 float32) {
	d.add(Call{Op: OpSetLOD, N: 2, A: [6]float32{lod0, lod1}})
}
func (d *Dest) StartPath(adj uint8, x, y float32) {
	d.add(Call{Op: OpStartPath, Adj: adj, N: 2, A: [6]float32{x, y}})
}
func (d *Dest) ClosePathEndPath() { d.add(Call{Op: OpClosePathEndPath}) }
func (d *Dest) ClosePathAbsMoveTo(x, y float32) {
	d.add(Call{Op: OpClosePathAbsMoveTo, N: 2, A: [6]float32{x, y}})
}
func (d *Dest) ClosePathRelMoveTo(x, y float32) {
	d.add(Call{Op: OpClosePathRelMoveTo, N: 2, A: [6]float32{x, y}})
}
func (d *Dest) AbsHLineTo(x float32) { d.add(Call{Op: OpAbsHLineTo, N: 1, A: [6]float32{x}}) }
func (d *Dest) RelHLineTo(x float32) { d.add(Call{Op: OpRelHLineTo, N: 1, A: [6]float32{x}}) }
func (d *Dest) AbsVLineTo(y float32) { d.add(Call{Op: OpAbsVLineTo, N: 1, A: [6]float32{y}}) }
func (d *Dest) RelVLineTo(y float32) { d.add(Call{Op: OpRelVLineTo, N: 1, A: [6]float32{y}}) }
func (d *Dest) AbsLineTo(x, y float32) {
	d.add(Call{Op: OpAbsLineTo, N: 2, A: [6]float32{x, y}})
}
func (d *Dest) RelLineTo(x, y float32) {
	d.add(Call{Op: OpRelLineTo, N: 2, A: [6]float32{x, y}})
}
func (d *Dest) AbsSmoothQuadTo(x, y float32) {
	d.add(Call{Op: OpAbsSmoothQuadTo, N: 2, A: [6]float32{x, y}})
}
func (d *Dest) RelSmoothQuadTo(x, y float32) {
	d.add(Call{Op: OpRelSmoothQuadTo, N: 2, A: [6]float32{x, y}})
}
func (d *Dest) AbsQuadTo(x1, y1, x, y float32) {
	d.add(Call{Op: OpAbsQuadTo, N: 4, A: [6]float32{x1, y1, x, y}})
}
func (d *Dest) RelQuadTo(x1, y1, x, y float32) {
	d.add(Call{Op: OpRelQuadTo, N: 4, A: [6]float32{x1, y1, x, y}})
}
func (d *Dest) AbsSmoothCubeTo(x2, y2, x, y float32) {
	d.add(Call{Op: OpAbsSmoothCubeTo, N: 4, A: [6]float32{x2, y2, x, y}})
}
func (d *Dest) RelSmoothCubeTo(x2, y2, x, y float32) {
	d.add(Call{Op: OpRelSmoothCubeTo, N: 4, A: [6]float32{x2, y2, x, y}})
}
func (d *Dest) AbsCubeTo(x1, y1, x2, y2, x, y float32) {
	d.add(Call{Op: OpAbsCubeTo, N: 6, A: [6]float32{x1, y1, x2, y2, x, y}})
}
func (d *Dest) RelCubeTo(x1, y1, x2, y2, x, y float32) {
	d.add(Call{Op: OpRelCubeTo, N: 6, A: [6]float32{x1, y1, x2, y2, x, y}})
}
func (d *Dest) AbsArcTo(rx, ry, rot float32, largeArc, sweep bool, x, y float32) {
	d.add(Call{Op: OpAbsArcTo, LargeArc: largeArc, Sweep: sweep, N: 5, A: [6]float32{rx, ry, rot, x, y}})
}
func (d *Dest) RelArcTo(rx, ry, rot float32, largeArc, sweep bool, x, y float32) {
	d.add(Call{Op: OpRelArcTo, LargeArc: largeArc, Sweep: sweep, N: 5, A: [6]float32{rx, ry, rot, x, y}})
}

// Rasterizer call codes.
const (
	ROpReset uint8 = iota + 1
	ROpMoveTo
	ROpLineTo
	ROpQuadTo
	ROpCubeTo
	ROpClosePath
	ROpDraw
)

// RCall is one recorded rasterizer call.
type RCall struct {
	Op   uint8
	N    int
	A    [6]float32
	W, H int
	R    image.Rectangle
	SP   image.Point
	Src  image.Image
}

// Raster records rasteriser calls and tracks the pen as
// golang.org/x/image/vector does (ClosePath returns the pen to the start of
// the sub-path).
type Raster struct {
	Log        []RCall
	W, H       int
	penX, penY float32
	firstX     float32
	firstY     float32
	PenCalls   int
}

func (z *Raster) Reset(w, h int) {
	z.W, z.H = w, h
	z.penX, z.penY, z.firstX, z.firstY = 0, 0, 0, 0
	z.Log = append(z.Log, RCall{Op: ROpReset, W: w, H: h})
}
func (z *Raster) Size() image.Point       { return image.Point{z.W, z.H} }
func (z *Raster) Bounds() image.Rectangle { return image.Rectangle{Max: image.Point{z.W, z.H}} }
func (z *Raster) Pen() (x, y float32) {
	z.PenCalls++
	return z.penX, z.penY
}
func (z *Raster) MoveTo(ax, ay float32) {
	z.penX, z.penY, z.firstX, z.firstY = ax, ay, ax, ay
	z.Log = append(z.Log, RCall{Op: ROpMoveTo, N: 2, A: [6]float32{ax, ay}})
}
func (z *Raster) LineTo(bx, by float32) {
	z.penX, z.penY = bx, by
	z.Log = append(z.Log, RCall{Op: ROpLineTo, N: 2, A: [6]float32{bx, by}})
}
func (z *Raster) QuadTo(bx, by, cx, cy float32) {
	z.penX, z.penY = cx, cy
	z.Log = append(z.Log, RCall{Op: ROpQuadTo, N: 4, A: [6]float32{bx, by, cx, cy}})
}
func (z *Raster) CubeTo(bx, by, cx, cy, dx, dy float32) {
	z.penX, z.penY = dx, dy
	z.Log = append(z.Log, RCall{Op: ROpCubeTo, N: 6, A: [6]float32{bx, by, cx, cy, dx, dy}})
}
func (z *Raster) ClosePath() {
	z.penX, z.penY = z.firstX, z.firstY
	z.Log = append(z.Log, RCall{Op: ROpClosePath})
}
func (z *Raster) Draw(r image.Rectangle, src image.Image, sp image.Point) {
	z.Log = append(z.Log, RCall{Op: ROpDraw, R: r, SP: sp, Src: src})
}

// SameCall compares two recorded calls field by field (floats by value with
// NaN == NaN and +0 != -0, i.e. what a consumer can observe) as one condition.
func SameCall(a, b *Call) bool {
	return vp.All(a.Op == b.Op, a.Adj == b.Adj, a.Incr == b.Incr, a.LargeArc == b.LargeArc, a.Sweep == b.Sweep,
		a.N == b.N, a.Color == b.Color,
		vp.SameF32(a.A[0], b.A[0]), vp.SameF32(a.A[1], b.A[1]), vp.SameF32(a.A[2], b.A[2]),
		vp.SameF32(a.A[3], b.A[3]), vp.SameF32(a.A[4], b.A[4]), vp.SameF32(a.A[5], b.A[5]))
}

// SameLog reports whether two logs are equal; the lengths must be concrete
// per path (they are: the executor forks on structure).
func SameLog(a, b []Call) bool {
	if len(a) != len(b) {
		return false
	}
	ok := true
	for i := range a {
		ok = vp.And(ok, SameCall(&a[i], &b[i]))
	}
	return ok
}
