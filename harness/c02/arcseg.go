package c02

import (
	"image"

	"github.com/reactivego/ivg"
	"github.com/reactivego/ivg/render"

	"vph/rec"
	"vph/vp"
)

var _ = vp.Reg("ArcSegments", H_ArcSegments)

// H_ArcSegments (exact-real reading, sin/cos/acos uninterpreted with their
// range contracts): the work an arc operation causes in the rasteriser is
// bounded whatever its operands: at most four calls, all of them cubic
// segments, for every non-degenerate arc with operands of any magnitude up to
// 2^100 (huge radii, huge rotations, far end points included).
func H_ArcSegments() {
	var z render.Renderer
	var ras rec.Raster
	s := render.VPState{ViewBox: ivg.ViewBox{MinX: -32, MinY: -16, MaxX: 32, MaxY: 48}, R: image.Rect(0, 0, 48, 20), LOD1: 1}
	z.SetRasterizer(&ras, s.R)
	z.VPSet(&s)
	ras.MoveTo(vp.F32("penx"), vp.F32("peny"))
	ras.Log = nil
	rx, ry := vp.F32("rx"), vp.F32("ry")
	vp.Assume(vp.All(rx != 0, ry != 0, rx == rx, ry == ry))
	rot, x, y := vp.F32("rot"), vp.F32("x"), vp.F32("y")
	const big = 1 << 100
	vp.Assume(vp.All(rx <= big, rx >= -big, ry <= big, ry >= -big, rot <= big, rot >= -big, x <= big, x >= -big, y <= big, y >= -big))
	large, sweep := vp.Choice("large", 2) == 1, vp.Choice("sweep", 2) == 1
	vp.Reach("inputs")
	z.AbsArcTo(rx, ry, rot, large, sweep, x, y)
	vp.Assert(len(ras.Log) <= 4, "an arc operation causes at most four rasteriser calls")
	ok := true
	for i := range ras.Log {
		ok = vp.And(ok, ras.Log[i].Op == rec.ROpCubeTo)
	}
	vp.Assert(ok, "a non-degenerate arc is emitted as cubic segments only")
}
