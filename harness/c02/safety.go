package c02

import (
	"image"
	"math"

	"github.com/reactivego/ivg/decode"
	"github.com/reactivego/ivg/encode"
	"github.com/reactivego/ivg/render"

	"vph/rec"
	"vph/vp"
)

var _ = vp.Reg("Step", H_Step)
var _ = vp.Reg("Header", H_Header)
var _ = vp.Reg("Prefix", H_Prefix)
var _ = vp.Reg("IntoRenderer", H_IntoRenderer)
var _ = vp.Reg("IntoEncoder", H_IntoEncoder)
var _ = vp.Reg("Gate", H_Gate)
var _ = vp.Reg("GradientProgram", H_GradientProgram)

// Every harness marks the input read-only; panics on any feasible path and
// out-of-range reads are obligations raised by the executor itself.

// H_Step: one mode-function step on 1..W arbitrary bytes: an error, or a
// strict suffix of the input with at most one delivered call per consumed byte.
func H_Step() {
	W := vp.Param("W", 6)
	L := 1 + vp.Choice("len", W)
	b := vp.Bytes("b", L)
	vp.ReadOnly(b)
	var d rec.Dest
	var rest []byte
	var err error
	mode := 0
	if vp.Choice("mode", 2) == 0 {
		mode, rest, err = decode.VPStyling(&d, nil, b)
	} else {
		mode, rest, err = decode.VPDrawing(&d, nil, b)
	}
	if err != nil {
		vp.Reach("error")
		_, isDecodeError := err.(decode.DecodeError)
		vp.Assert(isDecodeError, "errors are DecodeErrors")
		vp.Assert(mode == -1, "no next mode after an error")
		vp.Assert(len(d.Log) < L, "calls delivered before an error consumed at least one byte each")
		return
	}
	vp.Reach("ok")
	consumed := L - len(rest)
	vp.Assert(consumed >= 1, "a successful step consumes at least one byte")
	vp.Assert(len(d.Log) <= consumed, "at most one delivered call per consumed byte")
	vp.Assert(len(d.Log) >= 1, "a successful step delivers at least one call")
}

// H_Header: Decode, DecodeViewBox and Disassemble on 0..L fully arbitrary
// bytes (magic, chunk counts and lengths up to 2^30 included).
func H_Header() {
	W := vp.Param("W", 8)
	L := vp.Choice("len", W+1)
	src := vp.Bytes("b", L)
	vp.ReadOnly(src)
	var d rec.Dest
	err := decode.Decode(&d, src)
	if err != nil {
		_, isDecodeError := err.(decode.DecodeError)
		vp.Assert(isDecodeError, "Decode errors are DecodeErrors")
	}
	if len(d.Log) > 0 {
		vp.Reach("delivered")
		vp.Assert(d.Log[0].Op == rec.OpReset, "the first delivered call is Reset")
		vp.Assert(d.Resets == 1, "Reset is delivered exactly once")
	} else {
		vp.Reach("nothing")
		vp.Assert(err != nil, "a stream that delivers nothing is an error")
	}
	_, err2 := decode.DecodeViewBox(src)
	if err2 != nil {
		_, isDecodeError := err2.(decode.DecodeError)
		vp.Assert(isDecodeError, "DecodeViewBox errors are DecodeErrors")
		vp.Assert(len(d.Log) == 0, "nothing is delivered unless the metadata is valid")
	}
	_, err3 := decode.Disassemble(src)
	vp.Assert((err3 == nil) == (err == nil), "Disassemble succeeds exactly when Decode does")
}

// H_Prefix: the calls delivered for a prefix are a prefix of the calls
// delivered for the whole input.
func H_Prefix() {
	L := vp.Param("L", 5)
	tail := vp.Bytes("b", L)
	src := append([]byte{0x89, 0x49, 0x56, 0x47}, tail...)
	vp.ReadOnly(src)
	k := vp.Choice("cut", 4+L)
	var d1, d2 rec.Dest
	decode.Decode(&d1, src[:k])
	decode.Decode(&d2, src)
	vp.Reach("decoded")
	vp.Assert(len(d1.Log) <= len(d2.Log), "a prefix delivers no more calls than the whole input")
	if len(d1.Log) <= len(d2.Log) {
		vp.Assert(rec.SameLog(d1.Log, d2.Log[:len(d1.Log)]), "calls delivered for a prefix are a prefix of the calls for the whole input")
	}
}

// H_IntoRenderer: decoding arbitrary bytes into a real Renderer bound to a
// recording rasteriser: no panic, rasteriser activity bounded by the input.
func H_IntoRenderer() {
	L := vp.Param("L", 4)
	tail := vp.Bytes("b", L)
	vp.Assume(int(tail[0]>>4) == vp.Choice("op", 16)) // exhaustive case split on the first opcode's high nibble
	src := append([]byte{0x89, 0x49, 0x56, 0x47, 0x00}, tail...)
	vp.ReadOnly(src)
	var z render.Renderer
	var ras rec.Raster
	z.SetRasterizer(&ras, image.Rect(0, 0, 16, 16))
	err := decode.Decode(&z, src)
	vp.Reach("decoded")
	_ = err
	vp.Assert(len(ras.Log) <= 4*L+4, "rasteriser activity is linear in the input length")
}

// H_IntoEncoder: decoding arbitrary bytes into an Encoder: no panic; when the
// stream is accepted the Encoder holds no error.
func H_IntoEncoder() {
	L := vp.Param("L", 4)
	tail := vp.Bytes("b", L)
	vp.Assume(int(tail[0]>>4) == vp.Choice("op", 16)) // exhaustive case split on the first opcode's high nibble
	src := append([]byte{0x89, 0x49, 0x56, 0x47, 0x00}, tail...)
	vp.ReadOnly(src)
	var e encode.Encoder
	err := decode.Decode(&e, src)
	_, err2 := e.Bytes()
	vp.Reach("decoded")
	vp.Assert(vp.Implies(err == nil, err2 == nil), "an accepted stream can be fed to an Encoder without error")
}

// H_Gate: nothing is delivered unless every metadata chunk is valid: a
// viewBox chunk with coordinates of freely chosen widths (one or two of them
// 1, 2 or 4 arbitrary bytes, the rest arbitrary 1-byte forms) followed by
// one instruction; whenever anything is delivered the box is finite and not
// inverted, and the first call is Reset with exactly that box.
func H_Gate() {
	hot := vp.Choice("hot", 4)
	width := 1 << vp.Choice("width", 3)
	two := vp.Choice("two", 2) == 1
	var body []byte
	for j := 0; j < 4; j++ {
		if j == hot || (two && j == (hot+2)%4) {
			x := vp.Bytes("wide", width)
			want := byte(0)
			if width == 2 {
				want = 1
			} else if width == 4 {
				want = 3
			}
			vp.Assume(x[0]&3 == want || (width == 1 && x[0]&1 == 0))
			body = append(body, x...)
		} else {
			x := vp.Bytes("narrow", 1)
			vp.Assume(x[0]&1 == 0)
			body = append(body, x...)
		}
	}
	src := []byte{0x89, 0x49, 0x56, 0x47, 0x02, byte(2 * (1 + len(body))), 0x00}
	src = append(src, body...)
	src = append(src, 0x05) // one instruction: set CSEL = 5
	vp.ReadOnly(src)
	var d rec.Dest
	err := decode.Decode(&d, src)
	vp.Reach("decoded")
	if len(d.Log) == 0 {
		vp.Assert(err != nil, "a stream that delivers nothing is an error")
		return
	}
	vb := d.ViewBox
	fin := func(f float32) bool { return math.Float32bits(f)&0x7f800000 != 0x7f800000 }
	vp.Assert(vp.All(fin(vb.MinX), fin(vb.MinY), fin(vb.MaxX), fin(vb.MaxY), vb.MinX <= vb.MaxX, vb.MinY <= vb.MaxY),
		"something was delivered, so the viewBox chunk was valid: finite and not inverted")
	vp.Assert(vp.And(d.Log[0].Op == rec.OpReset, len(d.Log) == 2), "Reset, then the instruction")
}

// H_GradientProgram: a program too long for the generic windows: one colour
// register set to an arbitrary 4-byte colour (every gradient-encoding value,
// reserved bits included), one number register set to an arbitrary 1-byte
// zero-to-one value with post-increment, then a path painted with that colour,
// decoded into a real Renderer: no panic, bounded rasteriser activity.
func H_GradientProgram() {
	c := vp.Bytes("c", 4)
	n := vp.Bytes("n", 2)
	vp.Assume(vp.And(n[0]&1 == 0, n[1]&1 == 0))
	src := []byte{0x89, 0x49, 0x56, 0x47, 0x00, 0x98, c[0], c[1], c[2], c[3], 0x40 | (n[0] >> 2), 0xbf, n[1], 0xc0, 0x80, 0x80, 0x00, 0x90, 0x90, 0xe1}
	vp.ReadOnly(src)
	var z render.Renderer
	var ras rec.Raster
	z.SetRasterizer(&ras, image.Rect(0, 0, 16, 16))
	err := decode.Decode(&z, src)
	vp.Reach("decoded")
	vp.Assert(err == nil, "a well-formed program decodes")
	vp.Assert(len(ras.Log) <= 5, "at most Reset, MoveTo, LineTo, ClosePath, Draw")
}
