package c07

import (
	"image"
	"image/color"

	"github.com/reactivego/ivg"
	"github.com/reactivego/ivg/decode"
	"github.com/reactivego/ivg/encode"
	"github.com/reactivego/ivg/generate"
	"github.com/reactivego/ivg/render"

	"vph/drive"
	"vph/rec"
	"vph/vp"
)

var _ = vp.Reg("SelectorStep", H_SelectorStep)
var _ = vp.Reg("Pipelines", H_Pipelines)
var _ = vp.Reg("GradientPipelines", H_GradientPipelines)
var _ = vp.Reg("Logger", H_Logger)

// H_SelectorStep (one-step induction): an Encoder in styling mode without
// error and a Renderer whose selectors agree modulo 64; after any one styling
// call with arbitrary arguments their reported selectors still agree modulo 64.
func H_SelectorStep() {
	cs, ns := vp.U8("csel"), vp.U8("nsel")
	var e encode.Encoder
	es := encode.VPEnc{Mode: 1, CSel: cs % 64, NSel: ns % 64, Buf: []byte{0x89, 0x49, 0x56, 0x47, 0x00}, LOD1: 1}
	e.VPSet(&es)
	var z render.Renderer
	var ras rec.Raster
	z.SetRasterizer(&ras, image.Rect(0, 0, 8, 8))
	zs := z.VPGet()
	zs.CSel, zs.NSel = cs, ns // any byte congruent mod 64
	z.VPSet(&zs)
	k := drive.KSetCSel + vp.Choice("call", 5)
	var a drive.Args
	a.Adj, a.Incr = vp.U8("adj"), vp.Bool("incr")
	if drive.UsesAdj(k) {
		vp.Assume(a.Adj <= 6)
		vp.Assume(vp.Implies(a.Incr, a.Adj == 0))
	}
	a.F[0], a.F[1] = 3, 5
	if k == drive.KSetCReg {
		a.Color = drive.AnyColor() // every colour kind: flat (any bytes), palette index, CREG reference, blend
	}
	drive.Do(&e, k, &a)
	drive.Do(&z, k, &a)
	vp.Reach("stepped")
	_, err := e.Bytes()
	vp.Assert(err == nil, "legal styling call is accepted")
	vp.Assert(e.CSel()%64 == z.CSel()%64, "CSEL reported by the Encoder equals the Renderer's modulo 64")
	vp.Assert(e.NSel()%64 == z.NSel()%64, "NSEL reported by the Encoder equals the Renderer's modulo 64")
}

func sameRLog(a, b []rec.RCall) bool {
	if len(a) != len(b) {
		return false
	}
	ok := true
	for i := range a {
		x, y := &a[i], &b[i]
		ok = vp.All(ok, x.Op == y.Op, x.N == y.N, x.W == y.W, x.H == y.H, x.R == y.R,
			vp.SameF32(x.A[0], y.A[0]), vp.SameF32(x.A[1], y.A[1]), vp.SameF32(x.A[2], y.A[2]),
			vp.SameF32(x.A[3], y.A[3]), vp.SameF32(x.A[4], y.A[4]), vp.SameF32(x.A[5], y.A[5]))
		if x.Op == rec.ROpDraw && y.Op == rec.ROpDraw {
			r1, g1, b1, a1 := x.Src.At(2, 3).RGBA()
			r2, g2, b2, a2 := y.Src.At(2, 3).RGBA()
			ok = vp.All(ok, r1 == r2, g1 == g2, b1 == b2, a1 == a2)
		}
	}
	return ok
}

// program: K symbolic styling calls (selectors, adj, incr, colours symbolic;
// numbers in short forms), then one path that paints with the resulting
// registers.
func program(d ivg.Destination, K int) {
	for i := 0; i < K; i++ {
		k := drive.KSetCSel + vp.Choice("call", 4)
		var a drive.Args
		a.Adj, a.Incr = vp.U8("adj"), vp.Bool("incr")
		if drive.UsesAdj(k) {
			vp.Assume(a.Adj <= 6)
			vp.Assume(vp.Implies(a.Incr, a.Adj == 0))
		}
		a.F[0] = float32(i + 1)
		if k == drive.KSetCReg {
			a.Color = ivg.RGBAColor(color.RGBA{vp.U8("r"), vp.U8("g"), vp.U8("b"), 0xff})
		}
		drive.Do(d, k, &a)
	}
	d.StartPath(vp.U8("padj")%7, 1, 2)
	d.AbsLineTo(5, 6)
	d.RelSmoothQuadTo(3, 4)
	d.ClosePathEndPath()
}

// H_Pipelines: the same symbolic program (a) directly into a Renderer and
// (b) into an Encoder whose bytes are decoded into a Renderer: identical
// rasteriser activity and paints.
func H_Pipelines() {
	K := vp.Param("K", 2)
	var z1, z2 render.Renderer
	var r1, r2 rec.Raster
	z1.SetRasterizer(&r1, image.Rect(0, 0, 32, 32))
	z2.SetRasterizer(&r2, image.Rect(0, 0, 32, 32))
	z1.Reset(ivg.DefaultViewBox, ivg.DefaultPalette)
	var e encode.Encoder
	// the symbolic choices are drawn once; both destinations receive the same calls
	var l rec.Dest
	program(&l, K)
	replay(&z1, l.Log)
	replay(&e, l.Log)
	out, err := e.Bytes()
	vp.Assert(err == nil, "well-formed program is accepted")
	err = decode.Decode(&z2, out)
	vp.Reach("rendered")
	vp.Assert(err == nil, "decodes")
	vp.Assert(sameRLog(r1.Log, r2.Log), "rendering directly equals rendering via encode + decode")
}

func replay(d ivg.Destination, log []rec.Call) {
	for i := range log {
		c := &log[i]
		switch c.Op {
		case rec.OpSetCSel:
			d.SetCSel(c.Adj)
		case rec.OpSetNSel:
			d.SetNSel(c.Adj)
		case rec.OpSetCReg:
			d.SetCReg(c.Adj, c.Incr, c.Color)
		case rec.OpSetNReg:
			d.SetNReg(c.Adj, c.Incr, c.A[0])
		case rec.OpSetLOD:
			d.SetLOD(c.A[0], c.A[1])
		case rec.OpStartPath:
			d.StartPath(c.Adj, c.A[0], c.A[1])
		case rec.OpAbsLineTo:
			d.AbsLineTo(c.A[0], c.A[1])
		case rec.OpRelSmoothQuadTo:
			d.RelSmoothQuadTo(c.A[0], c.A[1])
		case rec.OpClosePathEndPath:
			d.ClosePathEndPath()
		}
	}
}

// H_GradientPipelines: selector writes and incrementing register writes
// followed by the Generator's gradient helper (which reads the selectors
// back), through both pipelines; the Renderers end in the same register state
// and paint the same.
func H_GradientPipelines() {
	var z1, z2 render.Renderer
	var r1, r2 rec.Raster
	z1.SetRasterizer(&r1, image.Rect(0, 0, 32, 32))
	z2.SetRasterizer(&r2, image.Rect(0, 0, 32, 32))
	z1.Reset(ivg.DefaultViewBox, ivg.DefaultPalette)
	var e encode.Encoder
	// Prior history: a selector write followed by any number of incrementing register
	// writes. Its effect on the two destinations is constructed directly: the Renderer's
	// selector is any byte b (it counts increments without reducing them), the Encoder's
	// is b mod 64. (That the two stay congruent under every styling call is H_SelectorStep.)
	b := vp.U8("csel")
	zs := z1.VPGet()
	zs.CSel = b
	z1.VPSet(&zs)
	es := encode.VPEnc{Mode: 1, CSel: b % 64, Buf: []byte{0x89, 0x49, 0x56, 0x47, 0x00, b % 64}, LOD1: 1}
	es.LOD1 = zs.LOD1
	e.VPSet(&es)
	stops := []generate.GradientStop{{Offset: 0, Color: color.RGBA{0xff, 0, 0, 0xff}}, {Offset: 1, Color: color.RGBA{0, 0, 0xff, 0xff}}}
	var errs [2]error
	for i, d := range []ivg.Destination{&z1, &e} {
		g := generate.Generator{Destination: d}
		errs[i] = g.SetLinearGradient(-8, -8, 8, 8, generate.GradientSpreadPad, stops)
		g.StartPath(0, -16, -16)
		g.AbsLineTo(16, -16)
		g.AbsLineTo(16, 16)
		g.ClosePathEndPath()
	}
	vp.Assert(errs[0] == errs[1], "the gradient helper accepts or rejects alike on both destinations")
	out, err := e.Bytes()
	vp.Assert(err == nil, "accepted")
	err = decode.Decode(&z2, out)
	vp.Reach("rendered")
	vp.Assert(err == nil, "decodes")
	s1, s2 := z1.VPGet(), z2.VPGet()
	vp.Assert(s1.CReg == s2.CReg, "both pipelines leave the same colour registers (the gradient value sits in the same register)")
	vp.Assert(vp.And(s1.CSel%64 == s2.CSel%64, s1.NSel%64 == s2.NSel%64), "both pipelines leave the same selectors")
	vp.Assert(sameRLog(r1.Log, r2.Log), "both pipelines paint the same")
}

// H_Logger: DestinationLogger forwards every method exactly once with
// identical arguments (printing is a stub).
func H_Logger() {
	k := vp.Choice("call", drive.NumCalls)
	var a drive.Args
	a.Adj, a.Incr, a.LargeArc, a.Sweep = vp.U8("adj"), vp.Bool("incr"), vp.Bool("large"), vp.Bool("sweep")
	a.Color = ivg.RGBAColor(color.RGBA{vp.U8("r"), vp.U8("g"), vp.U8("b"), vp.U8("a")})
	for i := 0; i < 6; i++ {
		a.F[i] = vp.F32("f")
	}
	a.ViewBox = ivg.ViewBox{MinX: vp.F32("v"), MinY: vp.F32("v"), MaxX: vp.F32("v"), MaxY: vp.F32("v")}
	a.Palette[3] = color.RGBA{vp.U8("p"), vp.U8("p"), vp.U8("p"), vp.U8("p")}
	var direct, inner rec.Dest
	l := ivg.DestinationLogger{Destination: &inner, Alt: vp.Bool("alt")}
	drive.Do(&direct, k, &a)
	drive.Do(&l, k, &a)
	vp.Reach("called")
	vp.Assert(rec.SameLog(direct.Log, inner.Log), "the logger forwards the call once with identical arguments")
	vp.Assert(vp.And(sameVB(direct.ViewBox, inner.ViewBox), direct.Palette == inner.Palette), "Reset arguments are forwarded")
	vp.Assert(vp.And(l.CSel() == inner.CSel(), l.NSel() == inner.NSel()), "selector read-backs are promoted")
}

func sameVB(a, b ivg.ViewBox) bool {
	return vp.All(vp.SameF32(a.MinX, b.MinX), vp.SameF32(a.MinY, b.MinY), vp.SameF32(a.MaxX, b.MaxX), vp.SameF32(a.MaxY, b.MaxY))
}
