package c13

import (
	"image/color"
	"math"

	"github.com/reactivego/ivg"
	"github.com/reactivego/ivg/decode"
	"github.com/reactivego/ivg/encode"

	"vph/rec"
	"vph/ref"
	"vph/vp"
)

var _ = vp.Reg("Section", H_Section)
var _ = vp.Reg("PaletteChunk", H_PaletteChunk)
var _ = vp.Reg("Delivered", H_Delivered)
var _ = vp.Reg("EncoderViewBox", H_EncoderViewBox)
var _ = vp.Reg("ViewBoxCodec", H_ViewBoxCodec)
var _ = vp.Reg("ViewBoxChunk", H_ViewBoxChunk)

func sameVB(a, b ivg.ViewBox) bool {
	return vp.All(vp.SameF32(a.MinX, b.MinX), vp.SameF32(a.MinY, b.MinY), vp.SameF32(a.MaxX, b.MaxX), vp.SameF32(a.MaxY, b.MaxY))
}

// H_Section: the metadata section as L arbitrary bytes after the magic
// (chunk count, lengths, MIDs, contents all symbolic): metadata-only decoding
// accepts exactly what the reference accepts and yields the same viewBox and
// palette; defaults for absent chunks.
func H_Section() {
	L := vp.Param("L", 8)
	tail := vp.Bytes("b", L)
	vp.Assume(int(tail[0]>>1)&3 == vp.Choice("count", 4)) // exhaustive split on two bits of the chunk count
	src := append([]byte{0x89, 0x49, 0x56, 0x47}, tail...)
	vp.ReadOnly(src)
	m := ivg.DefaultMetadata
	err := decode.VPDecode(nil, nil, &m, true, src)
	want, n, ok := ref.Metadata(tail)
	vp.Assume(want.Ordered)
	vp.Assert((err == nil) == ok, "metadata accepted exactly when the specification accepts it")
	vb, err2 := decode.DecodeViewBox(src)
	vp.Assert((err2 == nil) == ok, "DecodeViewBox validates the same things")
	if !ok || err != nil {
		vp.Reach("rejected")
		return
	}
	vp.Reach("accepted")
	_ = n
	vp.Assert(sameVB(m.ViewBox, want.ViewBox), "viewBox is the stored one (default when absent)")
	vp.Assert(sameVB(vb, want.ViewBox), "DecodeViewBox returns the same viewBox")
	vp.Assert(m.Palette == want.Palette, "palette: N+1 explicit entries then opaque black; indirect / non-premultiplied entries are opaque black")
}

// H_PaletteChunk: one suggested-palette chunk of every format with n explicit
// entries of arbitrary colour bytes and an arbitrary declared length.
func H_PaletteChunk() {
	n := 1 + vp.Choice("n", vp.Param("N", 3))
	format := vp.Choice("format", 4)
	body := vp.Bytes("col", n*(1+format))
	lenForm := vp.Bytes("len", 1<<vp.Choice("lenwidth", 3)) // declared chunk length: any 1/2/4-byte natural
	declared, k := ref.Natural(lenForm)
	vp.Assume(k == len(lenForm))
	src := []byte{0x89, 0x49, 0x56, 0x47, 0x02}
	src = append(src, lenForm...)
	src = append(src, 0x02, byte(n-1)|byte(format)<<6)
	src = append(src, body...)
	vp.ReadOnly(src)
	var d rec.Dest
	err := decode.Decode(&d, src)
	actual := 2 + len(body)
	vp.Reach("decoded")
	vp.Assert((err == nil) == (int64(declared) == int64(actual)), "a chunk whose declared length disagrees with its content is rejected (and only then)")
	if err != nil {
		vp.Assert(len(d.Log) == 0, "nothing is delivered for a rejected metadata section")
		return
	}
	want, _, ok := ref.Metadata(src[4:])
	vp.Assert(ok, "reference accepts")
	vp.Assert(d.Palette == want.Palette, "delivered palette is the specified one")
	vp.Assert(sameVB(d.ViewBox, ivg.DefaultViewBox), "absent viewBox chunk means the default viewBox")
	black := true
	for i := n; i < 64; i++ {
		black = vp.And(black, d.Palette[i] == color.RGBA{0, 0, 0, 0xff})
	}
	vp.Assert(black, "implicit entries are opaque black")
}

// H_Delivered: what Decode delivers through Reset equals what metadata-only
// decoding reports, for streams without instructions.
func H_Delivered() {
	L := vp.Param("L", 7)
	tail := vp.Bytes("b", L)
	src := append([]byte{0x89, 0x49, 0x56, 0x47}, tail...)
	vp.ReadOnly(src)
	want, n, ok := ref.Metadata(tail)
	vp.Assume(vp.And(ok, want.Ordered))
	vp.Assume(n == L) // the stream is exactly its metadata
	var d rec.Dest
	err := decode.Decode(&d, src)
	vp.Reach("decoded")
	vp.Assert(err == nil, "a stream consisting of valid metadata only is accepted")
	vp.Assert(d.Resets == 1 && len(d.Log) == 1, "exactly one Reset is delivered")
	vp.Assert(vp.And(sameVB(d.ViewBox, want.ViewBox), d.Palette == want.Palette), "Reset receives the decoded viewBox and palette")
}

func finite(f float32) bool { return math.Float32bits(f)&0x7f800000 != 0x7f800000 }

// H_ViewBoxCodec: the coordinate codec is monotone and keeps finite values
// finite, for all pairs of float32: so a valid viewBox (finite, min <= max)
// stays valid when written by the encoder, whatever forms are chosen.
func H_ViewBoxCodec() {
	a, b := vp.F32("a"), vp.F32("b")
	vp.Assume(vp.All(finite(a), finite(b), a <= b))
	ea, _ := encode.VPEncodeCoordinate(a)
	eb, _ := encode.VPEncodeCoordinate(b)
	ga, na := decode.VPDecodeCoordinate(ea)
	gb, nb := decode.VPDecodeCoordinate(eb)
	vp.Reach("coded")
	vp.Assert(vp.And(na == len(ea), nb == len(eb)), "coordinates decode completely")
	vp.Assert(vp.And(finite(ga), finite(gb)), "finite coordinates stay finite through the codec")
	vp.Assert(ga <= gb, "the codec is monotone: min <= max is preserved")
}

// H_EncoderViewBox: the viewBox chunk written by Encoder.Reset is read back
// field by field by the decoder (plumbing; coordinates range over all values
// of the 1-byte form, on which the codec is the identity).
func H_EncoderViewBox() {
	vb := ivg.ViewBox{MinX: smallCoord("minx"), MinY: smallCoord("miny"), MaxX: smallCoord("maxx"), MaxY: smallCoord("maxy")}
	vp.Assume(vp.And(vb.MinX <= vb.MaxX, vb.MinY <= vb.MaxY))
	var e encode.Encoder
	e.Reset(vb, ivg.DefaultPalette)
	out, err := e.Bytes()
	vp.Assert(err == nil, "Reset with a valid viewBox is accepted")
	got, err := decode.DecodeViewBox(out)
	vp.Reach("decoded")
	vp.Assert(err == nil, "the decoder accepts the viewBox the encoder writes")
	vp.Assert(sameVB(got, vb), "MinX, MinY, MaxX, MaxY come back in their places")
}

func smallCoord(name string) float32 {
	b := vp.U8(name)
	vp.Assume(b < 128)
	return float32(int32(b) - 64)
}

// H_ViewBoxChunk: a viewBox chunk whose four coordinates have freely chosen
// widths: one coordinate (chosen symbolically) is 1, 2 or 4 arbitrary bytes,
// the others arbitrary 1-byte forms; the declared chunk length is correct.
// Accepted exactly when the box is finite and not inverted; delivered as decoded.
func H_ViewBoxChunk() {
	hot := vp.Choice("hot", 4)
	width := 1 << vp.Choice("width", 3)
	two := vp.Choice("two", 2) == 1 // also the opposite corner's coordinate on the same axis is wide
	var body []byte
	for j := 0; j < 4; j++ {
		if j == hot || (two && j == (hot+2)%4) {
			x := vp.Bytes("wide", width)
			want := byte(0)
			if width == 2 {
				want = 1
			} else if width == 4 {
				want = 3
			}
			vp.Assume(x[0]&3 == want || (width == 1 && x[0]&1 == 0))
			body = append(body, x...)
		} else {
			x := vp.Bytes("narrow", 1)
			vp.Assume(x[0]&1 == 0)
			body = append(body, x...)
		}
	}
	src := []byte{0x89, 0x49, 0x56, 0x47, 0x02, byte(2 * (1 + len(body))), 0x00}
	src = append(src, body...)
	vp.ReadOnly(src)
	var d rec.Dest
	err := decode.Decode(&d, src)
	want, _, ok := ref.Metadata(src[4:])
	vb, err2 := decode.DecodeViewBox(src)
	vp.Assert((err == nil) == ok, "viewBox accepted exactly when finite and not inverted")
	vp.Assert((err2 == nil) == ok, "metadata-only decoding validates the same things")
	if !ok || err != nil {
		vp.Reach("rejected")
		vp.Assert(len(d.Log) == 0, "nothing is delivered for an invalid viewBox")
		return
	}
	vp.Reach("accepted")
	vp.Assert(vp.And(sameVB(d.ViewBox, want.ViewBox), sameVB(vb, want.ViewBox)), "the viewBox delivered (and returned by DecodeViewBox) is the stored one")
}
