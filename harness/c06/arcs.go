package c06

import (
	"image"
	"math"

	"github.com/reactivego/ivg"
	"github.com/reactivego/ivg/render"

	"vph/rec"
	"vph/ref"
	"vph/vp"
)

var _ = vp.Reg("ZeroRadius", H_ZeroRadius)
var _ = vp.Reg("ZeroRadiusRel", H_ZeroRadiusRel)
var _ = vp.Reg("RelIsAbsFromPen", H_RelIsAbsFromPen)
var _ = vp.Reg("Segments", H_Segments)

// setup: an enabled mid-path Renderer with arbitrary viewBox, rectangle size
// and pen, and the reference geometry in the same state.
func setup(z *render.Renderer, ras *rec.Raster) *ref.Geom {
	vb := ivg.ViewBox{MinX: vp.F32("minx"), MinY: vp.F32("miny"), MaxX: vp.F32("maxx"), MaxY: vp.F32("maxy")}
	w, h := 1+int(vp.U16("w")), 1+int(vp.U16("h"))
	s := render.VPState{ViewBox: vb, R: image.Rect(0, 0, w, h), LOD1: 1, PrevSmoothType: uint8(vp.Choice("smooth", 3))}
	z.SetRasterizer(ras, s.R)
	z.VPSet(&s)
	px, py := vp.F32("penx"), vp.F32("peny")
	ras.MoveTo(px, py)
	ras.Log = nil
	return &ref.Geom{MinX: vb.MinX, MinY: vb.MinY, MaxX: vb.MaxX, MaxY: vb.MaxY, W: w, H: h, PenX: px, PenY: py, StartX: px, StartY: py}
}

// H_ZeroRadius (bit exact): an arc with a zero (or NaN) radius is a straight
// line to the mapped endpoint, in the absolute and the relative form.
func H_ZeroRadius() {
	var z render.Renderer
	var ras rec.Raster
	g := setup(&z, &ras)
	rx, ry := vp.F32("rx"), vp.F32("ry")
	vp.Assume(vp.Any(!(rx != 0), !(ry != 0), rx != rx, ry != ry)) // some radius is zero or NaN
	rot, x, y := vp.F32("rot"), vp.F32("x"), vp.F32("y")
	large, sweep := vp.Bool("large"), vp.Bool("sweep")
	vp.Reach("inputs")
	rel := false // the relative form is H_ZeroRadiusRel (rounded-real reading, moderate magnitudes)
	z.AbsArcTo(rx, ry, rot, large, sweep, x, y)
	vp.Reach("drawn")
	vp.Assert(len(ras.Log) == 1, "a degenerate arc is exactly one segment")
	if len(ras.Log) != 1 {
		return
	}
	c := ras.Log[0]
	vp.Assert(c.Op == rec.ROpLineTo, "a degenerate arc is a straight line")
	if rel {
		// relative endpoint: pen + scaled offset (within rounding of the unmap/map round trip)
		wx, wy := g.RelX(x), g.RelY(y)
		vp.Assert(vp.And(near(c.A[0], wx), near(c.A[1], wy)), "relative degenerate arc ends at pen + scaled offset")
	} else {
		vp.Assert(vp.And(vp.SameF32(c.A[0], g.AbsX(x)), vp.SameF32(c.A[1], g.AbsY(y))), "absolute degenerate arc ends at the mapped endpoint")
	}
	vp.Assert(z.VPGet().PrevSmoothType == 0, "an arc clears the smooth-curve memory")
}

// H_ZeroRadiusRel (exact-real reading, moderate finite magnitudes): the
// relative degenerate arc is a straight line to pen + scaled offset, up to the
// rounding of mapping the endpoint to viewBox space and back.
func H_ZeroRadiusRel() {
	var z render.Renderer
	var ras rec.Raster
	minx, miny, vw, vh := vp.F32("minx"), vp.F32("miny"), vp.F32("vw"), vp.F32("vh")
	vp.Assume(vp.All(minx >= -64, minx <= 64, miny >= -64, miny <= 64, vw >= 0.25, vw <= 256, vh >= 0.25, vh <= 256))
	vp.ExactBegin()
	vb := ivg.ViewBox{MinX: minx, MinY: miny, MaxX: minx + vw, MaxY: miny + vh}
	vp.ExactEnd()
	s := render.VPState{ViewBox: vb, R: image.Rect(0, 0, 48, 20), LOD1: 1}
	z.SetRasterizer(&ras, s.R)
	z.VPSet(&s)
	px, py, x, y := vp.F32("penx"), vp.F32("peny"), vp.F32("x"), vp.F32("y")
	vp.Assume(vp.All(px >= -1024, px <= 1024, py >= -1024, py <= 1024, x >= -256, x <= 256, y >= -256, y <= 256))
	ras.MoveTo(px, py)
	ras.Log = nil
	z.RelArcTo(0, vp.F32("ry"), vp.F32("rot"), false, true, x, y)
	vp.Reach("drawn")
	vp.Assert(len(ras.Log) == 1, "a degenerate arc is exactly one segment")
	if len(ras.Log) != 1 {
		return
	}
	c := ras.Log[0]
	vp.Assert(c.Op == rec.ROpLineTo, "a degenerate arc is a straight line")
	vp.ExactBegin()
	sx, sy := 48/vw, 20/vh
	wx, wy := px+sx*x, py+sy*y
	// rounding is relative to the magnitudes that enter the computation: the pen, the
	// scaled offset and the scaled viewBox origin (the endpoint goes to viewBox space and back)
	ex := (abs(px) + sx*abs(x) + sx*abs(minx) + 1) / (1 << 19)
	ey := (abs(py) + sy*abs(y) + sy*abs(miny) + 1) / (1 << 19)
	vp.Check(vp.And(c.A[0]-wx <= ex, wx-c.A[0] <= ex), "relative degenerate arc ends at pen + scaled x offset")
	vp.Check(vp.And(c.A[1]-wy <= ey, wy-c.A[1] <= ey), "relative degenerate arc ends at pen + scaled y offset")
	vp.ExactEnd()
}

func abs(x float32) float32 { return vp.IteF32(x >= 0, x, -x) }

// near: equal, both NaN, or within 1e-3 relative / absolute (the relative
// form maps its endpoint to viewBox space and back).
func near(a, b float32) bool { return vp.NearF32(a, b, 1e-3, 1e-3) }

// H_RelIsAbsFromPen (bit exact, relational): the relative form is the
// absolute form applied to the endpoint pen + offset expressed in viewBox
// space; same rasteriser calls.
func H_RelIsAbsFromPen() {
	var z1, z2 render.Renderer
	var ras1, ras2 rec.Raster
	vb := ivg.ViewBox{MinX: vp.F32("minx"), MinY: vp.F32("miny"), MaxX: vp.F32("maxx"), MaxY: vp.F32("maxy")}
	w, h := 1+int(vp.U16("w")), 1+int(vp.U16("h"))
	s := render.VPState{ViewBox: vb, R: image.Rect(0, 0, w, h), LOD1: 1}
	z1.SetRasterizer(&ras1, s.R)
	z1.VPSet(&s)
	z2.SetRasterizer(&ras2, s.R)
	z2.VPSet(&s)
	px, py := vp.F32("penx"), vp.F32("peny")
	ras1.MoveTo(px, py)
	ras2.MoveTo(px, py)
	rx, ry, rot, x, y := vp.F32("rx"), vp.F32("ry"), vp.F32("rot"), vp.F32("x"), vp.F32("y")
	large, sweep := vp.Bool("large"), vp.Bool("sweep")
	vp.Assume(vp.Or(!(rx != 0), !(ry != 0))) // keep the run cheap: the degenerate branch; the general branch is the same call
	sx, bx, sy, by := z1.VPScale()
	ax, ay := px+sx*x, py+sy*y // pen + scaled offset, in pixels
	z1.RelArcTo(rx, ry, rot, large, sweep, x, y)
	z2.AbsArcTo(rx, ry, rot, large, sweep, ax/sx-bx, ay/sy-by)
	vp.Reach("drawn")
	vp.Assert(len(ras1.Log) == len(ras2.Log), "relative and absolute form issue the same number of calls")
	if len(ras1.Log) == 2 && len(ras2.Log) == 2 {
		a, b := ras1.Log[1], ras2.Log[1]
		vp.Assert(vp.All(a.Op == b.Op, vp.SameF32(a.A[0], b.A[0]), vp.SameF32(a.A[1], b.A[1])), "the relative form measures its endpoint from the pen")
	}
}

// H_Segments (bit exact, trigonometry as contract-only stubs): a
// non-degenerate arc is emitted as cubic segments only, at most four, and
// clears the smooth-curve memory.
func H_Segments() {
	var z render.Renderer
	var ras rec.Raster
	s := render.VPState{ViewBox: ivg.ViewBox{MinX: -32, MinY: -16, MaxX: 32, MaxY: 48}, R: image.Rect(0, 0, 48, 20), LOD1: 1}
	z.SetRasterizer(&ras, s.R)
	z.VPSet(&s)
	ras.MoveTo(vp.F32("penx"), vp.F32("peny"))
	ras.Log = nil
	rx, ry := vp.F32("rx"), vp.F32("ry")
	vp.Assume(vp.All(rx != 0, ry != 0, rx == rx, ry == ry))
	rot, x, y := vp.F32("rot"), vp.F32("x"), vp.F32("y")
	const big = 1 << 100
	vp.Assume(vp.All(rx <= big, rx >= -big, ry <= big, ry >= -big, rot <= big, rot >= -big, x <= big, x >= -big, y <= big, y >= -big))
	large, sweep := vp.Choice("large", 2) == 1, vp.Choice("sweep", 2) == 1
	vp.Reach("inputs")
	z.AbsArcTo(rx, ry, rot, large, sweep, x, y)
	vp.Assert(len(ras.Log) <= 4, "an arc is at most four segments")
	ok := true
	for i := range ras.Log {
		ok = vp.And(ok, ras.Log[i].Op == rec.ROpCubeTo)
	}
	vp.Assert(ok, "a non-degenerate arc is emitted as cubic segments only")
}

var _ = vp.Reg("General", H_General)

// H_General (exact-real reading; sin, cos, acos uninterpreted): a
// non-degenerate arc under a non-uniform, off-origin viewBox map is emitted as
// 1..4 cubics whose control and end points are the ones the SVG centre
// parameterisation (ref.NewArc, written from the SVG implementation notes)
// prescribes for an equal subdivision of the sweep, mapped to pixels; and the
// last end point is the mapped arc end point.
//
// Assumed (a theorem of the SVG notes about ref.NewArc's own angles, not
// derivable with uninterpreted trigonometry): the end angle Theta1+Delta
// parameterises the end point, i.e. (Rx cos, Ry sin)(Theta1+Delta) = (Ex, Ey),
// the end point relative to the centre in the rotated frame.
func H_General() {
	var z render.Renderer
	var ras rec.Raster
	// viewBox (-32,-16)-(32,48) onto 48 x 20: pixel = (0.75*(x+32), 0.3125*(y+16))
	s := render.VPState{ViewBox: ivg.ViewBox{MinX: -32, MinY: -16, MaxX: 32, MaxY: 48}, R: image.Rect(0, 0, 48, 20), LOD1: 1}
	z.SetRasterizer(&ras, s.R)
	z.VPSet(&s)
	mapX := func(x float64) float64 { return 0.75 * (x + 32) }
	mapY := func(y float64) float64 { return 0.3125 * (y + 16) }
	x1, y1, x2, y2 := vp.F32("x1"), vp.F32("y1"), vp.F32("x2"), vp.F32("y2")
	rx, ry, rot := vp.F32("rx"), vp.F32("ry"), vp.F32("rot")
	vp.Assume(vp.All(x1 >= -64, x1 <= 64, y1 >= -64, y1 <= 64, x2 >= -64, x2 <= 64, y2 >= -64, y2 <= 64))
	vp.Assume(vp.All(rx >= 0.25, rx <= 64, ry >= 0.25, ry <= 64, rot >= 0, rot <= 1))
	vp.Assume(vp.Or(x1 != x2, y1 != y2))
	// the x-axis rotation is concrete (0 or an eighth of a turn): with a symbolic rotation the
	// non-linear real queries did not terminate within the caps
	if vp.Choice("rot", 2) == 1 {
		rot = 0.125
	} else {
		rot = 0
	}
	large, sweep := vp.Choice("large", 2) == 1, vp.Choice("sweep", 2) == 1
	vp.Reach("inputs")
	vp.ExactBegin()
	ras.MoveTo(float32(mapX(float64(x1))), float32(mapY(float64(y1))))
	vp.ExactEnd()
	ras.Log = nil
	z.AbsArcTo(rx, ry, rot, large, sweep, x2, y2)
	vp.Reach("drawn")
	vp.ExactBegin()
	a := ref.NewArc(float64(x1), float64(y1), float64(x2), float64(y2), float64(rx), float64(ry), float64(rot), large, sweep)
	vp.Assert(a.N <= 4, "an arc has at most four segments")
	vp.Assert(len(ras.Log) == a.N, "one rasteriser call per segment of the equal subdivision")
	if len(ras.Log) != a.N || a.N < 1 || a.N > 4 { // (no segment at all needs acos = 0: excluded by real trigonometry only)
		vp.ExactEnd()
		return
	}
	ok := true
	for i := 0; i < a.N; i++ {
		c := ras.Log[i]
		ok = vp.And(ok, c.Op == rec.ROpCubeTo)
		p := a.Segment(a.Theta1+a.Delta*float64(i+0)/float64(a.N), a.Theta1+a.Delta*float64(i+1)/float64(a.N))
		for j := 0; j < 6; j += 2 {
			ok = vp.All(ok, nearPix(c.A[j], mapX(p[j])), nearPix(c.A[j+1], mapY(p[j+1])))
		}
	}
	vp.Assert(ok, "every segment is the cubic the centre parameterisation prescribes, mapped to pixels")
	// the theorem about the reference's own angles (see above): the ellipse point at the
	// end angle is the end point; and cos^2 + sin^2 = 1 for the rotation
	te := a.Theta1 + a.Delta
	vp.AssumeEq(a.Rx*math.Cos(te), a.Ex, 1e-6)
	vp.AssumeEq(a.Ry*math.Sin(te), a.Ey, 1e-6)
	vp.AssumeEq(a.CosPhi*a.CosPhi+a.SinPhi*a.SinPhi, 1, 1e-9)
	vp.Reach("lemma")
	last := ras.Log[a.N-1]
	vp.Assert(vp.And(nearPix(last.A[4], mapX(float64(x2))), nearPix(last.A[5], mapY(float64(y2)))), "the arc ends at the mapped end point")
	vp.ExactEnd()
}

// nearPix: within 1e-3 pixel (absolute) plus 1e-4 relative.
func nearPix(got float32, want float64) bool {
	d := float64(got) - want
	m := vp.IteF64(want < 0, -want, want)
	return vp.And(d <= 1e-3+1e-4*m, -d <= 1e-3+1e-4*m)
}
