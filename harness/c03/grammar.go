package c03

import (
	"github.com/reactivego/ivg/decode"

	"vph/rec"
	"vph/ref"
	"vph/vp"
)

var _ = vp.Reg("Numbers", H_Numbers)
var _ = vp.Reg("StylingStep", H_StylingStep)
var _ = vp.Reg("DrawingStep", H_DrawingStep)
var _ = vp.Reg("Stream", H_Stream)
var _ = vp.Reg("Magic", H_Magic)
var _ = vp.Reg("WideStep", H_WideStep)

// H_Numbers: the four number decoders against the reference, for every
// pattern of 0..4 bytes.
func H_Numbers() {
	L := vp.Choice("len", 5)
	b := vp.Bytes("b", L)
	vp.ReadOnly(b)
	u, n := decode.VPDecodeNatural(b)
	ru, rn := ref.Natural(b)
	vp.Reach("natural")
	vp.Assert(vp.And(n == rn, u == ru), "natural number decodes as specified")
	f, n := decode.VPDecodeReal(b)
	rf, rn := ref.Real(b)
	vp.Assert(vp.And(n == rn, vp.SameF32(f, rf)), "real number decodes as specified")
	f, n = decode.VPDecodeCoordinate(b)
	rf, rn = ref.Coordinate(b)
	vp.Assert(vp.And(n == rn, vp.SameF32(f, rf)), "coordinate number decodes as specified")
	f, n = decode.VPDecodeZeroToOne(b)
	rf, rn = ref.ZeroToOne(b)
	vp.Assert(vp.And(n == rn, vp.SameF32(f, rf)), "zero-to-one number decodes as specified")
}

func compareStep(mode1 int, rest []byte, err error, d1 *rec.Dest, n2, mode2 int, ok bool, d2 *rec.Dest, L int) {
	vp.Assert((err == nil) == ok, "instruction accepted exactly when the specification accepts it")
	if err != nil || !ok {
		vp.Reach("rejected")
		return
	}
	vp.Reach("accepted")
	vp.Assert(len(rest) == L-n2, "instruction consumes the bytes the specification assigns to it")
	vp.Assert(mode1 == mode2, "next mode is the specified one")
	vp.Assert(rec.SameLog(d1.Log, d2.Log), "delivered operations and operands are the specified ones")
}

// H_StylingStep: one styling-mode instruction on a window of L arbitrary bytes.
func H_StylingStep() {
	L := vp.Param("L", 6)
	b := vp.Bytes("b", L)
	vp.Assume(int(b[0]>>4) == vp.Choice("op", 16)) // case split on the opcode's high nibble (exhaustive)
	vp.ReadOnly(b)
	var d1, d2 rec.Dest
	mode1, rest, err := decode.VPStyling(&d1, nil, b)
	n2, mode2, ok := ref.StylingStep(&d2, b)
	compareStep(mode1, rest, err, &d1, n2, mode2, ok, &d2, L)
}

// H_DrawingStep: one drawing-mode instruction (all repeats) on a window of L
// arbitrary bytes.
func H_DrawingStep() {
	L := vp.Param("L", 6)
	b := vp.Bytes("b", L)
	vp.Assume(int(b[0]>>4) == vp.Choice("op", 16)) // case split on the opcode's high nibble (exhaustive)
	vp.ReadOnly(b)
	var d1, d2 rec.Dest
	mode1, rest, err := decode.VPDrawing(&d1, nil, b)
	n2, mode2, ok := ref.DrawingStep(&d2, b)
	compareStep(mode1, rest, err, &d1, n2, mode2, ok, &d2, L)
}

// H_Stream: whole streams: magic followed by L arbitrary bytes (metadata,
// then instructions).
func H_Stream() {
	L := vp.Param("L", 5)
	tail := vp.Bytes("b", L)
	if L >= 2 {
		vp.Assume(int(tail[1]>>4) == vp.Choice("hi", 16)) // case split on the second byte's high nibble (exhaustive)
	}
	src := append([]byte{0x89, 0x49, 0x56, 0x47}, tail...)
	vp.ReadOnly(src)
	var d1, d2 rec.Dest
	err := decode.Decode(&d1, src)
	ok, ordered := ref.Decode(&d2, src)
	vp.Assume(ordered)
	vp.Assert((err == nil) == ok, "stream accepted exactly when well formed under the specification")
	if err != nil || !ok {
		vp.Reach("rejected")
		return
	}
	vp.Reach("accepted")
	vp.Assert(rec.SameLog(d1.Log, d2.Log), "delivered operation sequence is the specified one")
	vp.Assert(vp.All(vp.SameF32(d1.ViewBox.MinX, d2.ViewBox.MinX), vp.SameF32(d1.ViewBox.MinY, d2.ViewBox.MinY),
		vp.SameF32(d1.ViewBox.MaxX, d2.ViewBox.MaxX), vp.SameF32(d1.ViewBox.MaxY, d2.ViewBox.MaxY)), "viewBox is the specified one")
	vp.Assert(d1.Palette == d2.Palette, "palette is the specified one")
}

// H_Magic: the magic identifier is checked exactly.
func H_Magic() {
	L := vp.Choice("len", 6)
	src := vp.Bytes("b", L)
	var d1 rec.Dest
	err := decode.Decode(&d1, src)
	magic := false
	if L >= 4 {
		magic = vp.All(src[0] == 0x89, src[1] == 0x49, src[2] == 0x56, src[3] == 0x47)
	}
	vp.Reach("decoded")
	vp.Assert(vp.Implies(!magic, err != nil), "streams without the magic identifier are rejected")
	if L == 5 {
		vp.Assert(vp.Implies(magic, (err == nil) == (src[4] == 0)), "magic + chunk count 0 is the empty graphic; other one-byte tails are rejected")
	}
}

// H_WideStep: instructions that do not fit the small windows of the generic
// step harnesses: one repetition of every drawing verb (6-operand curves and
// arcs included) and StartPath / SetLOD, with every operand in a freely chosen
// width: one operand (chosen symbolically) is 1, 2 or 4 arbitrary bytes, the
// others are arbitrary 1-byte forms. Arc flags are a natural number of any width.
func H_WideStep() {
	ops := [...]byte{0x00, 0x20, 0x40, 0x50, 0x60, 0x70, 0x80, 0x90, 0xa0, 0xb0, 0xc0, 0xd0, 0xe2, 0xe3, 0xe6, 0xe7, 0xe8, 0xe9}
	nops := [...]int{2, 2, 2, 2, 4, 4, 4, 4, 6, 6, 6, 6, 2, 2, 1, 1, 1, 1}
	i := vp.Choice("verb", len(ops))
	n := nops[i]
	hot := vp.Choice("hot", n)
	width := 1 << vp.Choice("width", 3)
	b := []byte{ops[i]}
	for j := 0; j < n; j++ {
		if j == hot {
			x := vp.Bytes("wide", width)
			want := byte(0)
			if width == 2 {
				want = 1
			} else if width == 4 {
				want = 3
			}
			vp.Assume(x[0]&3 == want || (width == 1 && x[0]&1 == 0))
			b = append(b, x...)
		} else {
			x := vp.Bytes("narrow", 1)
			vp.Assume(x[0]&1 == 0)
			b = append(b, x...)
		}
	}
	vp.ReadOnly(b)
	var d1, d2 rec.Dest
	mode1, rest, err := decode.VPDrawing(&d1, nil, b)
	n2, mode2, ok := ref.DrawingStep(&d2, b)
	compareStep(mode1, rest, err, &d1, n2, mode2, ok, &d2, len(b))
}
