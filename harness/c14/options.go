package c14

import (
	"image"
	"image/color"

	"github.com/reactivego/ivg"
	"github.com/reactivego/ivg/decode"
	"github.com/reactivego/ivg/render"

	"vph/rec"
	"vph/vp"
)

var _ = vp.Reg("Options", H_Options)
var _ = vp.Reg("Sanitised", H_Sanitised)

func symPalette(p string) (a [64]color.RGBA) {
	for i := range a {
		a[i] = color.RGBA{vp.U8(p + "r"), vp.U8(p + "g"), vp.U8(p + "b"), vp.U8(p + "a")}
	}
	return a
}

// anyColor is a colour of one of four colour models with arbitrary channel
// values; want is its premultiplied RGBA value per the image/color contract
// (the high bytes of Color.RGBA()).
func anyColor() (c color.Color, want color.RGBA) {
	switch vp.Choice("model", 4) {
	case 0:
		x := color.RGBA{vp.U8("r"), vp.U8("g"), vp.U8("b"), vp.U8("a")}
		return x, x
	case 1:
		x := color.NRGBA{vp.U8("r"), vp.U8("g"), vp.U8("b"), vp.U8("a")}
		c = x
	case 2:
		c = color.Gray{vp.U8("y")}
	default:
		c = color.RGBA64{vp.U16("r16"), vp.U16("g16"), vp.U16("b16"), vp.U16("a16")}
	}
	r, g, b, a := c.RGBA()
	return c, color.RGBA{uint8(r >> 8), uint8(g >> 8), uint8(b >> 8), uint8(a >> 8)}
}

// graphic: magic, one metadata chunk with a two-entry suggested palette
// (opaque 40:80:c0 and ff:ff:ff, 1-byte colours), no instructions.
var graphic = []byte{0x89, 0x49, 0x56, 0x47, 0x02, 0x08, 0x02, 0x01, 38, 124}

// H_Options: option lists of length <= K applied in order on top of the
// suggested palette; inputs are not modified.
func H_Options() {
	K := vp.Param("K", 2)
	src := append([]byte(nil), graphic...)
	vp.ReadOnly(src)
	want := ivg.DefaultPalette
	want[0] = color.RGBA{0x40, 0x80, 0xc0, 0xff}
	want[1] = color.RGBA{0xff, 0xff, 0xff, 0xff}
	var opts []decode.DecodeOption
	var userPal [64]color.RGBA
	for i := 0; i < K; i++ {
		switch vp.Choice("opt", 3) {
		case 0:
			userPal = symPalette("u")
			opts = append(opts, decode.WithPalette(userPal))
			want = userPal
		case 1:
			idx := [3]int{0, 1, 63}[vp.Choice("idx", 3)]
			c, rgba := anyColor()
			opts = append(opts, decode.WithColorAt(idx, c))
			want[idx] = rgba
		case 2:
			// no further option
		}
	}
	keep := userPal
	var d rec.Dest
	err := decode.Decode(&d, src, opts...)
	vp.Reach("decoded")
	vp.Assert(err == nil, "options do not affect acceptance")
	// an entry that is not a valid premultiplied colour may be replaced by opaque
	// black (sanitising is checked by H_Sanitised); valid entries must be exact
	ok := true
	for i := range want {
		w := want[i]
		valid := vp.All(w.R <= w.A, w.G <= w.A, w.B <= w.A)
		ok = vp.And(ok, vp.Or(d.Palette[i] == w, vp.And(!valid, d.Palette[i] == color.RGBA{0, 0, 0, 0xff})))
	}
	vp.Assert(ok, "the palette given to Reset is the options applied in order on top of the suggested palette")
	vp.Assert(userPal == keep, "the caller's palette array is not modified")
	vp.Assert(ivg.DefaultPalette[0] == color.RGBA{0, 0, 0, 0xff}, "package defaults are not modified")
}

// H_Sanitised: a user-supplied entry that is not a valid premultiplied colour
// acts as opaque black and is never reinterpreted as a gradient: a path filled
// with that palette entry is painted flat opaque black.
func H_Sanitised() {
	// graphic: no metadata; start path with CREG[0] (= palette[0]); one line; end path
	src := []byte{0x89, 0x49, 0x56, 0x47, 0x00, 0xc0, 0x80, 0x80, 0x00, 0x90, 0x90, 0xe1}
	vp.ReadOnly(src)
	bad := color.RGBA{vp.U8("r"), vp.U8("g"), vp.U8("b"), vp.U8("a")}
	vp.Assume(vp.Any(bad.R > bad.A, bad.G > bad.A, bad.B > bad.A))
	var opt decode.DecodeOption
	if vp.Choice("how", 2) == 0 {
		opt = decode.WithColorAt(0, bad)
	} else {
		p := ivg.DefaultPalette
		p[0] = bad
		opt = decode.WithPalette(p)
	}
	var z render.Renderer
	var ras rec.Raster
	z.SetRasterizer(&ras, image.Rect(0, 0, 8, 8))
	err := decode.Decode(&z, src, opt)
	vp.Reach("rendered")
	vp.Assert(err == nil, "decodes")
	kind, flat, _ := z.VPFill()
	vp.Assert(kind == 1, "a nonsensical user colour is never reinterpreted as a gradient (and the path is not dropped)")
	vp.Assert(flat == color.RGBA{0, 0, 0, 0xff}, "a nonsensical user colour acts as opaque black")
	vp.Assert(len(ras.Log) == 5, "the path is drawn (Reset, MoveTo, LineTo, ClosePath, Draw)")
}
