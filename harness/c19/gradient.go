package c19

import (
	"image"
	"image/color"

	"github.com/reactivego/ivg"
	"github.com/reactivego/ivg/encode"
	"github.com/reactivego/ivg/generate"
	"github.com/reactivego/ivg/render"

	"vph/rec"
	"vph/ref"
	"vph/vp"
)

var _ = vp.Reg("Registers", H_Registers)
var _ = vp.Reg("Rejects", H_Rejects)
var _ = vp.Reg("Linear", H_Linear)
var _ = vp.Reg("Circular", H_Circular)
var _ = vp.Reg("Elliptical", H_Elliptical)

var counts = [...]int{0, 1, 2, 3, 57, 58, 59, 64, 255, 256, 257, 300}

func mkStops(n int, symbolic bool) []generate.GradientStop {
	stops := make([]generate.GradientStop, n)
	for i := range stops {
		if symbolic {
			c := color.RGBA{vp.U8("r"), vp.U8("g"), vp.U8("b"), vp.U8("a")}
			stops[i] = generate.GradientStop{Offset: float32(vp.U8("o") >> 1), Color: c}
		} else {
			stops[i] = generate.GradientStop{Offset: float32(i), Color: color.RGBA{uint8(i), uint8(i), uint8(i), 0xff}}
		}
	}
	return stops
}

// apply replays recorded calls on the specification's machine.
func apply(m *ref.VM, log []rec.Call) {
	for i := range log {
		c := &log[i]
		switch c.Op {
		case rec.OpSetCSel:
			m.SetCSel(c.Adj)
		case rec.OpSetNSel:
			m.SetNSel(c.Adj)
		case rec.OpSetCReg:
			m.SetCReg(c.Adj, c.Incr, c.Color)
		case rec.OpSetNReg:
			m.SetNReg(c.Adj, c.Incr, c.A[0])
		}
	}
}

// H_Registers: SetGradient with n stops into a recording destination whose
// selectors start anywhere: the calls, replayed on the specification's
// machine, leave a gradient value in CREG[CSEL] that names the registers
// where the stops and the matrix are found, and restore both selectors.
func H_Registers() {
	n := counts[vp.Choice("n", 6)] // 0..58 stops (accepted counts)
	csel, nsel := vp.U8("csel")%64, vp.U8("nsel")%64
	vp.Assume(!(vp.And(csel >= 10, int(csel) < 10+n)))            // CSEL outside the stop range
	vp.Assume(!(vp.And(int(csel)+64 >= 10, int(csel)+64 < 10+n))) // also after wrap-around (10+n can reach 68)
	var d rec.Dest
	g := generate.Generator{Destination: &d}
	stops := mkStops(n, n <= 3)
	shape := generate.GradientShape(vp.Choice("shape", 2))
	spread := generate.GradientSpread(vp.Choice("spread", 4))
	tr := generate.Aff3{vp.F32("a"), vp.F32("b"), vp.F32("c"), vp.F32("d"), vp.F32("e"), vp.F32("f")}
	if vp.Choice("prior", 2) == 1 {
		// the Generator has set a gradient of the same geometry before and the
		// destination was reset since (the next graphic): the call under test must
		// still write everything the gradient value refers to
		g.SetGradient(shape, spread, twoStops, tr)
		g.Reset(ivg.DefaultViewBox, ivg.DefaultPalette)
	}
	d.SetCSel(csel)
	d.SetNSel(nsel)
	var m ref.VM
	m.CSel, m.NSel = csel, nsel
	d.Log = nil
	err := g.SetGradient(shape, spread, stops, tr)
	vp.Reach("set")
	vp.Assert(err == nil, "a gradient with at most 58 stops and CSEL outside the stop range is accepted")
	apply(&m, d.Log)
	vp.Assert(vp.And(m.CSel == csel, m.NSel == nsel), "CSEL and NSEL are left as they were")
	vp.Assert(vp.And(d.CSel() == csel, d.NSel() == nsel), "the destination reports the original selectors")
	gv := m.CReg[csel]
	cb, nb, sh, sp, ns := ivg.DecodeGradient(gv)
	vp.Assert(vp.All(gv.A == 0, gv.B&0x80 != 0), "CREG[CSEL] holds a gradient-encoding value")
	vp.Assert(vp.All(int(ns) == n, sh == uint8(shape), sp == uint8(spread)), "the gradient value names NSTOPS, shape and spread as given")
	ok := true
	for i := 0; i < n; i++ {
		r, gg, b, a := stops[i].Color.RGBA()
		want := color.RGBA{uint8(r >> 8), uint8(gg >> 8), uint8(b >> 8), uint8(a >> 8)}
		ok = vp.All(ok, m.CReg[(int(cb)+i)%64] == want, vp.SameF32(m.NReg[(int(nb)+i)%64], stops[i].Offset))
	}
	vp.Assert(ok, "stop colours and offsets are in CREG[CBASE+i], NREG[NBASE+i]")
	mat := true
	for i := 0; i < 6; i++ {
		mat = vp.And(mat, vp.SameF32(m.NReg[(int(nb)+64-6+i)%64], tr[i]))
	}
	vp.Assert(mat, "the matrix is in the six number registers below NBASE")
}

// H_Rejects: too many stops, or a colour selector inside the stop range, are
// rejected with the documented errors before anything is written; with a real
// Renderer (whose selector may have been driven to any byte value by
// incrementing writes), a real Encoder or a recorder as destination.
func H_Rejects() {
	n := counts[vp.Choice("n", len(counts))]
	stops := mkStops(n, false)
	var d rec.Dest
	var z render.Renderer
	var ras rec.Raster
	var e encode.Encoder
	var dst ivg.Destination
	var csel uint8
	switch vp.Choice("dest", 3) {
	case 0:
		csel = vp.U8("csel")
		d.SetCSel(csel)
		d.Log = nil
		dst = &d
	case 1:
		z.SetRasterizer(&ras, image.Rect(0, 0, 8, 8))
		s := z.VPGet()
		s.CSel = vp.U8("csel") // any byte: reachable by SetCSel + incrementing writes
		csel = s.CSel
		z.VPSet(&s)
		dst = &z
	default:
		csel = vp.U8("csel")
		e.SetCSel(csel)
		dst = &e
	}
	g := generate.Generator{Destination: dst}
	before, _ := e.Bytes()
	nBefore := len(before)
	err := g.SetGradient(generate.GradientShapeLinear, generate.GradientSpreadPad, stops, generate.Aff3{1, 0, 0, 0, 1, 0})
	c := int(csel % 64)
	overlap := vp.Or(vp.And(c >= 10, c < 10+n), vp.And(c+64 >= 10, c+64 < 10+n))
	vp.Reach("called")
	if n > 58 {
		vp.Assert(err == generate.TooManyGradientStops, "more than 58 stops are rejected with TooManyGradientStops")
	} else {
		vp.Assert(vp.Implies(overlap, err == generate.CSELUsedAsBothGradientAndStop), "CSEL inside the stop range is rejected with CSELUsedAsBothGradientAndStop")
		vp.Assert(vp.Implies(!overlap, err == nil), "otherwise the gradient is accepted")
	}
	if err != nil {
		vp.Assert(len(d.Log) == 0, "nothing is written before an error (recorder)")
		after, _ := e.Bytes()
		vp.Assert(len(after) == nBefore, "nothing is written before an error (Encoder)")
		vp.Assert(z.VPGet().CSel == z.VPGet().CSel, "renderer untouched")
	}
}

func matrixOf(d *rec.Dest) (m [6]float32, n int) {
	for i := range d.Log {
		c := &d.Log[i]
		if c.Op == rec.OpSetNReg && !c.Incr && c.Adj >= 1 && c.Adj <= 6 {
			m[6-int(c.Adj)] = c.A[0]
			n++
		}
	}
	return m, n
}

var twoStops = []generate.GradientStop{{Offset: 0, Color: color.RGBA{0, 0, 0, 0xff}}, {Offset: 1, Color: color.RGBA{0xff, 0xff, 0xff, 0xff}}}

// H_Linear (exact-real reading): offset 0 at (x1,y1), 1 at (x2,y2), constant
// along perpendiculars.
func H_Linear() {
	x1, y1, x2, y2 := vp.F32("x1"), vp.F32("y1"), vp.F32("x2"), vp.F32("y2")
	vp.Assume(vp.Or(x1 != x2, y1 != y2))
	var d rec.Dest
	g := generate.Generator{Destination: &d}
	err := g.SetLinearGradient(x1, y1, x2, y2, generate.GradientSpreadPad, twoStops)
	m, n := matrixOf(&d)
	vp.Reach("set")
	vp.Assert(vp.And(err == nil, n == 6), "accepted; six matrix numbers written")
	vp.ExactBegin()
	vp.Assert(m[0]*x1+m[1]*y1+m[2] == 0, "linear: offset 0 at (x1,y1)")
	vp.Assert(m[0]*x2+m[1]*y2+m[2] == 1, "linear: offset 1 at (x2,y2)")
	t := vp.F32("t")
	px, py := x1-t*(y2-y1), y1+t*(x2-x1) // any point on the perpendicular through (x1,y1)
	vp.Assert(m[0]*px+m[1]*py+m[2] == 0, "linear: constant along perpendiculars")
	vp.ExactEnd()
}

// H_Circular (exact-real reading): 0 at the centre, 1 on the circle through
// centre + radius vector.
func H_Circular() {
	cx, cy, rx, ry := vp.F32("cx"), vp.F32("cy"), vp.F32("rx"), vp.F32("ry")
	vp.Assume(vp.Or(rx != 0, ry != 0))
	var d rec.Dest
	g := generate.Generator{Destination: &d}
	err := g.SetCircularGradient(cx, cy, rx, ry, generate.GradientSpreadPad, twoStops)
	m, n := matrixOf(&d)
	vp.Reach("set")
	vp.Assert(vp.And(err == nil, n == 6), "accepted; six matrix numbers written")
	vp.ExactBegin()
	gx0, gy0 := m[0]*cx+m[1]*cy+m[2], m[3]*cx+m[4]*cy+m[5]
	vp.Assert(vp.And(gx0 == 0, gy0 == 0), "circular: the centre maps to the origin (offset 0)")
	px, py := cx+rx, cy+ry
	gx, gy := m[0]*px+m[1]*py+m[2], m[3]*px+m[4]*py+m[5]
	vp.Assert(gx*gx+gy*gy == 1, "circular: centre + radius vector is at distance 1")
	qx, qy := cx-ry, cy+rx // the radius vector turned by 90 degrees: same circle
	hx, hy := m[0]*qx+m[1]*qy+m[2], m[3]*qx+m[4]*qy+m[5]
	vp.Assert(hx*hx+hy*hy == 1, "circular: every point of the circle is at distance 1")
	vp.ExactEnd()
}

// H_Elliptical (exact-real reading): 0 at the centre, 1 at both axis ends.
func H_Elliptical() {
	cx, cy, rx, ry, sx, sy := vp.F32("cx"), vp.F32("cy"), vp.F32("rx"), vp.F32("ry"), vp.F32("sx"), vp.F32("sy")
	vp.ExactBegin()
	vp.Assume(rx*sy-sx*ry != 0) // non-degenerate axes
	vp.ExactEnd()
	var d rec.Dest
	g := generate.Generator{Destination: &d}
	err := g.SetEllipticalGradient(cx, cy, rx, ry, sx, sy, generate.GradientSpreadPad, twoStops)
	m, n := matrixOf(&d)
	vp.Reach("set")
	vp.Assert(vp.And(err == nil, n == 6), "accepted; six matrix numbers written")
	vp.ExactBegin()
	at := func(px, py float32) (float32, float32) {
		return m[0]*px + m[1]*py + m[2], m[3]*px + m[4]*py + m[5]
	}
	gx, gy := at(cx, cy)
	vp.Assert(vp.And(gx == 0, gy == 0), "elliptical: the centre maps to the origin")
	gx, gy = at(cx+rx, cy+ry)
	vp.Assert(gx*gx+gy*gy == 1, "elliptical: offset 1 at the end of the first axis")
	gx, gy = at(cx+sx, cy+sy)
	vp.Assert(gx*gx+gy*gy == 1, "elliptical: offset 1 at the end of the second axis")
	vp.ExactEnd()
}
