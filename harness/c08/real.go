package c08

import (
	"math"

	"github.com/reactivego/ivg/decode"
	"github.com/reactivego/ivg/encode"

	"vph/vp"
)

var _ = vp.Reg("Real", H_Real)
var _ = vp.Reg("Coordinate", H_Coordinate)
var _ = vp.Reg("ZeroToOne", H_ZeroToOne)
var _ = vp.Reg("Angle", H_Angle)
var _ = vp.Reg("ReencodeReal", H_ReencodeReal)
var _ = vp.Reg("ReencodeCoordinate", H_ReencodeCoordinate)
var _ = vp.Reg("Quantize", H_Quantize)
var _ = vp.Reg("Truncated", H_Truncated)

// bucket is a total function float32 -> 0..15 used to split hard queries into
// cases that are exhaustive by construction: positive binades 2^-15..2^-1
// (where the short zero-to-one forms live) get their own bucket 1..15,
// everything else is bucket 0.
func bucket(f float32) int {
	b := math.Float32bits(f)
	e := int((b >> 23) & 0xff)
	in := vp.All(b>>31 == 0, e >= 112, e <= 126)
	return vp.IteInt(in, e-111, 0)
}

func absDiff(a, b uint32) uint32 {
	return vp.IteU32(a > b, a-b, b-a)
}

// within4 is the format's 30-bit float tolerance: same sign, magnitude bit
// patterns at most 4 apart (so Inf stays Inf), finite stays finite; a NaN stays non-finite.
func within4(f, g float32) bool {
	bf, bg := math.Float32bits(f), math.Float32bits(g)
	nan := f != f
	nonfinite := bg&0x7f800000 == 0x7f800000
	close := vp.And(bf>>31 == bg>>31, absDiff(bf&0x7fffffff, bg&0x7fffffff) <= 4)
	// a finite value stays finite: +-Inf is not "within 4 units in the last place" of MaxFloat32
	finite := vp.Implies(bf&0x7f800000 != 0x7f800000, !nonfinite)
	return vp.Or(vp.And(nan, nonfinite), vp.All(!nan, close, finite))
}

// isInt reports whether f is an integer in [lo, hi).
func isInt(f float32, lo, hi float64) bool {
	g := float64(f)
	return vp.All(g >= lo, g < hi, math.Floor(g) == g)
}

// H_Real: every float32 through encodeReal/decodeReal.
func H_Real() {
	f := vp.F32("f")
	b, n := encode.VPEncodeReal(f)
	g, m := decode.VPDecodeReal(b)
	vp.Reach("encoded")
	vp.Assert(m == n, "real: decoder consumes exactly what the encoder wrote")
	vp.Assert(n == len(b), "real: reported length is the written length")
	vp.Assert(vp.Implies(n < 4, g == f), "real: short forms are exact")
	vp.Assert((n == 1) == isInt(f, 0, 128), "real: 1-byte form iff integer in [0,128)")
	vp.Assert((n == 2) == isInt(f, 128, 16384), "real: 2-byte form iff integer in [128,16384)")
	vp.Assert(vp.Implies(n == 4, within4(f, g)), "real: 4-byte form within 4 ulp, sign/Inf kept, NaN non-finite")
}

// H_Coordinate: every float32 through encodeCoordinate/decodeCoordinate.
func H_Coordinate() {
	f := vp.F32("f")
	b, n := encode.VPEncodeCoordinate(f)
	g, m := decode.VPDecodeCoordinate(b)
	vp.Reach("encoded")
	vp.Assert(m == n, "coordinate: decoder consumes exactly what the encoder wrote")
	vp.Assert(n == len(b), "coordinate: reported length is the written length")
	vp.Assert(vp.Implies(n < 4, g == f), "coordinate: short forms are exact")
	one := isInt(f, -64, 64)
	vp.Assert((n == 1) == one, "coordinate: 1-byte form iff integer in [-64,64)")
	// representable in the 2-byte form: f = k/64, k integer in [-8192, 8192)
	h := float64(f) * 64
	two := vp.All(h >= -8192, h < 8192, math.Floor(h) == h)
	vp.Assert((n == 2) == vp.And(two, !one), "coordinate: 2-byte form iff multiple of 1/64 in [-128,128) and not 1-byte")
	vp.Assert(vp.Implies(n == 4, within4(f, g)), "coordinate: 4-byte form within 4 ulp, sign/Inf kept, NaN non-finite")
}

// H_ZeroToOne: every float32 through encodeZeroToOne/decodeZeroToOne; all
// three forms stay within the 30-bit tolerance.
func H_ZeroToOne() {
	f := vp.F32("f")
	vp.Assume(bucket(f) == vp.Choice("bucket", 16))
	b, n := encode.VPEncodeZeroToOne(f)
	g, m := decode.VPDecodeZeroToOne(b)
	vp.Reach("encoded")
	vp.Assert(m == n, "zero-to-one: decoder consumes exactly what the encoder wrote")
	vp.Assert(n == len(b), "zero-to-one: reported length is the written length")
	vp.Assert(vp.Implies(n == 4, within4(f, g)), "zero-to-one: 4-byte form within 4 ulp")
	vp.Assert(vp.Implies(n < 4, vp.Or(g == f, within4(f, g))), "zero-to-one: short forms within 4 ulp")
}

// H_Angle: angles are stored modulo one turn.
func H_Angle() {
	f := vp.F32("f")
	vp.Assume(bucket(f) == vp.Choice("bucket", 16))
	vp.Assume(f == f)
	vp.Assume(math.Float32bits(f)&0x7f800000 != 0x7f800000)
	b, n := encode.VPEncodeAngle(f)
	g, m := decode.VPDecodeZeroToOne(b)
	vp.Reach("encoded")
	vp.Assert(m == n, "angle: decoder consumes exactly what the encoder wrote")
	vp.Assert(vp.And(g >= 0, g <= 1), "angle: decoded value lies in [0,1]")
	vp.Assert(vp.Implies(vp.And(f >= 0, f < 1), vp.Or(g == f, within4(f, g))), "angle: values already in [0,1) are kept")
}

// H_ReencodeReal: decoding any 1/2/4-byte pattern and re-encoding it never
// changes the value and never makes it longer.
func H_ReencodeReal() {
	L := 1 << vp.Choice("width", 3) // 1, 2, 4
	b := vp.Bytes("b", L)
	f, n := decode.VPDecodeReal(b)
	vp.Assume(n == L)
	vp.Reach("decoded")
	b2, n2 := encode.VPEncodeReal(f)
	g, m := decode.VPDecodeReal(b2)
	vp.Assert(m == n2, "re-encoded real decodes")
	vp.Assert(n2 <= n, "re-encoding a decoded real never makes it longer")
	vp.Assert(vp.Or(g == f, vp.And(g != g, f != f)), "re-encoding a decoded real never changes its value")
}

func H_ReencodeCoordinate() {
	L := 1 << vp.Choice("width", 3)
	b := vp.Bytes("b", L)
	f, n := decode.VPDecodeCoordinate(b)
	vp.Assume(n == L)
	vp.Reach("decoded")
	b2, n2 := encode.VPEncodeCoordinate(f)
	g, m := decode.VPDecodeCoordinate(b2)
	vp.Assert(m == n2, "re-encoded coordinate decodes")
	vp.Assert(n2 <= n, "re-encoding a decoded coordinate never makes it longer")
	vp.Assert(vp.Or(g == f, vp.And(g != g, f != f)), "re-encoding a decoded coordinate never changes its value")
}

// H_Quantize: low-resolution coordinates in [-128,128) become the nearest
// multiple of 1/64; everything else (and high resolution) is untouched.
func H_Quantize() {
	f := vp.F32("f")
	hires := vp.Bool("hires")
	q := encode.VPQuantize(hires, f)
	in := vp.And(f >= -128, f < 128)
	vp.Reach("quantized")
	vp.Assert(vp.Implies(vp.Or(hires, !in), vp.SameF32(q, f)), "quantize: identity outside [-128,128) and in high resolution")
	// nearest multiple of 1/64: q*64 is an integer and neither neighbouring
	// multiple is strictly closer to f. The distances are float32 differences;
	// rounding is monotone, so "strictly closer after rounding" implies
	// "strictly closer exactly": the oracle cannot raise a false alarm.
	k := q * 64
	dq := vp.AbsF32(f - q)
	lo := vp.AbsF32(f - (q - 1.0/64))
	hi := vp.AbsF32(f - (q + 1.0/64))
	ok := vp.All(float32(int32(k)) == k, !(lo < dq), !(hi < dq))
	vp.Assert(vp.Implies(vp.And(!hires, in), ok), "quantize: nearest multiple of 1/64 on [-128,128)")
}

// H_Truncated: a number cut short by end of input is an error (n == 0) and
// is never read past the end (the executor checks every index).
func H_Truncated() {
	L := vp.Choice("len", 4) // 0..3 bytes available
	b := vp.Bytes("b", L)
	vp.ReadOnly(b)
	need := 0
	if L > 0 {
		need = vp.IteInt(b[0]&1 == 0, 1, vp.IteInt(b[0]&2 == 0, 2, 4))
	}
	_, n0 := decode.VPDecodeNatural(b)
	_, n1 := decode.VPDecodeReal(b)
	_, n2 := decode.VPDecodeCoordinate(b)
	_, n3 := decode.VPDecodeZeroToOne(b)
	vp.Reach("decoded")
	short := vp.Or(L == 0, need > L)
	vp.Assert(vp.Implies(short, vp.All(n0 == 0, n1 == 0, n2 == 0, n3 == 0)), "truncated number is reported (n == 0)")
	vp.Assert(vp.Implies(!short, vp.All(n0 == need, n1 == need, n2 == need, n3 == need)), "complete number consumes its form's width")
}
