package c08

import (
	"github.com/reactivego/ivg/decode"
	"github.com/reactivego/ivg/encode"

	"vph/vp"
)

var _ = vp.Reg("NaturalRoundTrip", H_NaturalRoundTrip)

// Every natural below 2^30 round-trips and uses the shortest form.
func H_NaturalRoundTrip() {
	u := vp.U32("u")
	vp.Assume(u < 1<<30)
	b := encode.VPEncodeNatural(u)
	want := 4
	if u < 1<<7 {
		want = 1
	} else if u < 1<<14 {
		want = 2
	}
	vp.Assert(len(b) == want, "natural uses the shortest form")
	v, n := decode.VPDecodeNatural(b)
	vp.Assert(n == len(b), "decoder consumes what the encoder wrote")
	vp.Assert(v == u, "natural round trip")
	vp.Reach("done")
}
