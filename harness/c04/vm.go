package c04

import (
	"image"
	"image/color"

	"github.com/reactivego/ivg"
	"github.com/reactivego/ivg/render"

	"vph/drive"
	"vph/rec"
	"vph/ref"
	"vph/vp"
)

var _ = vp.Reg("RegisterStep", H_RegisterStep)
var _ = vp.Reg("Reset", H_Reset)
var _ = vp.Reg("StartPathFlat", H_StartPathFlat)
var _ = vp.Reg("StartPathGradient", H_StartPathGradient)
var _ = vp.Reg("DisabledPath", H_DisabledPath)

func symColors(p string) (a [64]color.RGBA) {
	for i := range a {
		a[i] = color.RGBA{vp.U8(p + "r"), vp.U8(p + "g"), vp.U8(p + "b"), vp.U8(p + "a")}
	}
	return a
}

func symNumbers(p string) (a [64]float32) {
	for i := range a {
		a[i] = vp.F32(p)
	}
	return a
}

// arbitrary returns an arbitrary Renderer state (selectors are arbitrary
// bytes, including values >= 64) bound to a recording rasteriser, and the
// reference machine related to it: equal registers, selectors equal mod 64.
func arbitrary(z *render.Renderer, ras *rec.Raster, w, h int) (render.VPState, ref.VM) {
	s := render.VPState{
		CSel: vp.U8("csel"), NSel: vp.U8("nsel"), LOD0: vp.F32("lod0"), LOD1: vp.F32("lod1"),
		CReg: symColors("c"), NReg: symNumbers("n"), Palette: symColors("p"),
		ViewBox: ivg.DefaultViewBox, R: image.Rect(0, 0, w, h),
	}
	z.SetRasterizer(ras, s.R)
	z.VPSet(&s)
	m := ref.VM{CReg: s.CReg, NReg: s.NReg, CSel: s.CSel % 64, NSel: s.NSel % 64, LOD0: s.LOD0, LOD1: s.LOD1, Palette: s.Palette}
	return s, m
}

func sameNumbers(a, b *[64]float32) bool {
	ok := true
	for i := range a {
		ok = vp.And(ok, vp.SameF32(a[i], b[i]))
	}
	return ok
}

func related(z *render.Renderer, m *ref.VM) bool {
	s := z.VPGet()
	return vp.All(s.CReg == m.CReg, sameNumbers(&s.NReg, &m.NReg), s.CSel%64 == m.CSel, s.NSel%64 == m.NSel,
		vp.SameF32(s.LOD0, m.LOD0), vp.SameF32(s.LOD1, m.LOD1), s.Palette == m.Palette)
}

// H_RegisterStep: one styling call on an arbitrary state keeps the Renderer
// related to the specification's machine.
func H_RegisterStep() {
	var z render.Renderer
	var ras rec.Raster
	pre, m := arbitrary(&z, &ras, 16, 16)
	k := drive.KSetCSel + vp.Choice("call", 5)
	var a drive.Args
	a.Adj, a.Incr = vp.U8("adj"), vp.Bool("incr")
	if k == drive.KSetCSel || k == drive.KSetNSel {
		// selector values come from 6-bit opcode fields; any byte is allowed by the API
	} else {
		vp.Assume(a.Adj <= 6) // ADJ is a 3-bit field whose value 7 means "increment"
	}
	a.F[0], a.F[1] = vp.F32("f0"), vp.F32("f1")
	if k == drive.KSetCReg {
		a.Color = drive.AnyColor()
	}
	drive.Do(&z, k, &a)
	switch k {
	case drive.KSetCSel:
		m.SetCSel(a.Adj)
	case drive.KSetNSel:
		m.SetNSel(a.Adj)
	case drive.KSetCReg:
		// the colour is resolved when stored, against the palette and the registers
		// as they are before the store. Resolve itself is decided against the
		// specification under C09 (operands, formula, composition lemmas).
		m.SetCRegResolved(a.Adj, a.Incr, a.Color.Resolve(&pre.Palette, &pre.CReg))
	case drive.KSetNReg:
		m.SetNReg(a.Adj, a.Incr, a.F[0])
	case drive.KSetLOD:
		m.SetLOD(a.F[0], a.F[1])
	}
	vp.Reach("stepped")
	vp.Assert(related(&z, &m), "registers, selectors (mod 64), LOD and palette follow the specification's machine")
	vp.Assert(vp.And(z.CSel()%64 == m.CSel, z.NSel()%64 == m.NSel), "reported selectors are the machine's (mod 64)")
	vp.Assert(len(ras.Log) == 0, "styling operations cause no rasteriser activity")
}

// H_Reset: Reset initialises the machine from the palette.
func H_Reset() {
	var z render.Renderer
	var ras rec.Raster
	arbitrary(&z, &ras, 16, 16)
	pal := symColors("np")
	vb := ivg.ViewBox{MinX: vp.F32("minx"), MinY: vp.F32("miny"), MaxX: vp.F32("maxx"), MaxY: vp.F32("maxy")}
	z.Reset(vb, pal)
	var m ref.VM
	m.Reset(pal)
	vp.Reach("reset")
	vp.Assert(related(&z, &m), "Reset: colour registers = palette, number registers and selectors zero, LOD = [0, +Inf)")
	vp.Assert(vp.And(z.CSel() == 0, z.NSel() == 0), "Reset: selectors read back as zero")
}

// H_StartPathFlat: flat paints (and the non-gradient ways of being disabled):
// the path is painted with exactly CREG[CSEL-ADJ] or causes no rasteriser
// activity at all.
func H_StartPathFlat() {
	var z render.Renderer
	var ras rec.Raster
	hgt := 1 + int(vp.U8("h")) // raster height 1..256
	_, m := arbitrary(&z, &ras, 16, hgt)
	adj := vp.U8("adj")
	vp.Assume(adj <= 6)
	x, y := drive.SmallCoord("x"), drive.SmallCoord("y")
	c := m.CReg[(m.CSel+64-adj)%64]
	vp.Assume(vp.Or(c.A != 0, c.B&0x80 == 0)) // not a gradient-encoding value
	want, _ := m.PaintFor(adj, float32(hgt))
	z.StartPath(adj, x, y)
	kind, flat, _ := z.VPFill()
	if want.Kind == ref.PaintNone {
		vp.Reach("disabled")
		vp.Assert(len(ras.Log) == 0, "a disabled path causes no rasteriser activity at StartPath")
		vp.Assert(z.VPGet().Disabled, "the path is marked disabled")
		return
	}
	vp.Reach("flat")
	vp.Assert(!z.VPGet().Disabled, "a path with a visible flat paint inside the LOD range is enabled")
	vp.Assert(vp.And(kind == 1, flat == want.Flat), "flat paint is exactly CREG[CSEL-ADJ]")
	vp.Assert(len(ras.Log) == 2, "StartPath resets the rasteriser and moves to the start point")
	if len(ras.Log) == 2 {
		vp.Assert(vp.All(ras.Log[0].Op == rec.ROpReset, ras.Log[0].W == 16, ras.Log[0].H == hgt, ras.Log[1].Op == rec.ROpMoveTo),
			"rasteriser is reset to the target size, then MoveTo")
	}
	z.ClosePathEndPath()
	vp.Assert(len(ras.Log) == 4, "ClosePathEndPath closes and draws")
	if len(ras.Log) == 4 {
		d := ras.Log[3]
		vp.Assert(vp.All(ras.Log[2].Op == rec.ROpClosePath, d.Op == rec.ROpDraw, d.R == image.Rect(0, 0, 16, hgt)), "the path is closed, then drawn over the target rectangle")
		r, g, b, a := d.Src.At(5, 5).RGBA()
		vp.Assert(vp.All(r == uint32(want.Flat.R)*0x101, g == uint32(want.Flat.G)*0x101, b == uint32(want.Flat.B)*0x101, a == uint32(want.Flat.A)*0x101),
			"the image handed to Draw is uniformly the flat colour")
	}
}

// H_StartPathGradient: gradient paints with a bounded number of stops.
func H_StartPathGradient() {
	var z render.Renderer
	var ras rec.Raster
	_, m := arbitrary(&z, &ras, 16, 16)
	adj := vp.U8("adj")
	vp.Assume(adj <= 6)
	maxStops := vp.Param("stops", 3)
	c := m.CReg[(m.CSel+64-adj)%64]
	vp.Assume(vp.All(c.A == 0, c.B&0x80 != 0, int(c.R&0x3f) <= maxStops)) // a gradient-encoding value
	vp.Assume(vp.Or(c.R != 0, c.G != 0))                                  // (R,G,B <= A = 0 would be transparent black, a flat colour)
	want, ok2 := m.PaintFor(adj, 16)
	z.StartPath(adj, 1, 2)
	kind, _, g := z.VPFill()
	if want.Kind == ref.PaintNone {
		if ok2 {
			vp.Reach("disabled")
			vp.Assert(len(ras.Log) == 0, "a gradient with invalid stops (or outside the LOD range) causes no rasteriser activity")
		}
		return
	}
	if !ok2 {
		return // fewer than 2 stops: the specification is silent
	}
	vp.Reach("gradient")
	vp.Assert(len(ras.Log) == 2, "an enabled gradient path starts rasterising")
	vp.Assert(kind == 2, "the paint is the gradient")
	if kind != 2 {
		return
	}
	vp.Assert(vp.And(g.GradientShape() == int(want.Shape), g.SpreadMethod() == int(want.Spread)), "shape and spread are the ones the register encodes")
	cols, offs := g.StopColors(), g.StopOffsets()
	vp.Assert(vp.And(len(cols) == want.NStops, len(offs) == want.NStops), "the gradient has NSTOPS stops")
	if len(cols) == want.NStops && len(offs) == want.NStops {
		ok := true
		for i := 0; i < want.NStops; i++ {
			sc := m.CReg[(int(want.CBase)+i)%64]
			so := m.NReg[(int(want.NBase)+i)%64]
			ok = vp.All(ok, cols[i] == sc, offs[i] == float64(so))
		}
		vp.Assert(ok, "stop colours and offsets are CREG[CBASE+i] and NREG[NBASE+i]")
	}
}

// H_DisabledPath: once a path is disabled no drawing operation reaches the
// rasteriser (other than reading the pen), including the end of the path.
func H_DisabledPath() {
	var z render.Renderer
	var ras rec.Raster
	s, _ := arbitrary(&z, &ras, 16, 16)
	s.Disabled = true
	z.VPSet(&s)
	k := drive.KClosePathEndPath + vp.Choice("call", drive.NumCalls-drive.KClosePathEndPath)
	var a drive.Args
	a.LargeArc, a.Sweep = vp.Bool("large"), vp.Bool("sweep")
	for i := 0; i < drive.NArgs(k); i++ {
		a.F[i] = vp.F32("f")
	}
	drive.Do(&z, k, &a)
	vp.Reach("called")
	vp.Assert(len(ras.Log) == 0, "a disabled path causes no rasteriser activity")
	vp.Assert(related2(&z, &s), "a disabled drawing operation leaves the register machine alone")
}

func related2(z *render.Renderer, s *render.VPState) bool {
	t := z.VPGet()
	return vp.All(t.CReg == s.CReg, sameNumbers(&t.NReg, &s.NReg), t.CSel == s.CSel, t.NSel == s.NSel, t.Palette == s.Palette)
}

var _ = vp.Reg("Repaint", H_Repaint)

// H_Repaint (relational, a real two-path history): a Renderer that has already
// painted one path with a gradient, then receives one register write (any
// number or colour register, in particular one inside the gradient's register
// window, including the part of the window that wraps past register 63),
// paints the next path exactly like a Renderer that holds the same registers
// but never painted the first path. Paint state remembered from an earlier
// path (a cache) that a register write fails to invalidate shows up here.
func H_Repaint() {
	var z1, z2 render.Renderer
	var r1, r2 rec.Raster
	_, m := arbitrary(&z1, &r1, 16, 16)
	adj := vp.U8("adj")
	vp.Assume(adj <= 6)
	maxStops := vp.Param("stops", 2)
	c := m.CReg[(m.CSel+64-adj)%64]
	vp.Assume(vp.All(c.A == 0, c.B&0x80 != 0, int(c.R&0x3f) <= maxStops, int(c.R&0x3f) >= 2)) // a gradient-encoding value
	z1.StartPath(adj, 1, 2)
	z1.ClosePathEndPath()
	wadj := vp.U8("wadj")
	vp.Assume(vp.And(wadj >= 1, wadj <= 6)) // a register other than the one holding the gradient descriptor may be written too
	if vp.Choice("write", 2) == 0 {
		z1.SetNReg(wadj, false, vp.F32("v"))
	} else {
		vp.Assume(wadj != adj) // the register holding the gradient descriptor itself is not overwritten
		z1.SetCReg(wadj, false, ivg.RGBAColor(color.RGBA{0x20, 0x40, 0x60, 0xff})) // a fixed valid colour: the target register is what varies
	}
	s2 := z1.VPGet()
	z2.SetRasterizer(&r2, s2.R)
	z2.VPSet(&s2)
	r1.Log = nil
	z1.StartPath(adj, 3, 4)
	z2.StartPath(adj, 3, 4)
	vp.Reach("repainted")
	k1, f1, g1 := z1.VPFill()
	k2, f2, g2 := z2.VPFill()
	vp.Assert(len(r1.Log) == len(r2.Log), "the second path causes the rasteriser activity the registers prescribe, whatever was painted before")
	d1, d2 := z1.VPGet().Disabled, z2.VPGet().Disabled
	vp.Assert(d1 == d2, "the second path is enabled exactly when the registers say so")
	if d1 || d2 {
		return
	}
	vp.Assert(k1 == k2, "same kind of paint")
	if k1 != k2 {
		return
	}
	if k1 == 1 {
		vp.Assert(f1 == f2, "same flat colour")
		return
	}
	if k1 != 2 {
		return
	}
	vp.Reach("gradient")
	vp.Assert(vp.And(g1.Shape == g2.Shape, g1.Spread == g2.Spread), "same shape and spread")
	same := true
	for i := 0; i < 6; i++ {
		same = vp.And(same, vp.SameF64(g1.Pix2Grad[i], g2.Pix2Grad[i]))
	}
	vp.Assert(same, "same pixel-to-gradient matrix as a Renderer without the earlier path")
	vp.Assert(len(g1.Ranges) == len(g2.Ranges), "same number of colour ranges")
	if len(g1.Ranges) == len(g2.Ranges) {
		ok := vp.And(g1.First == g2.First, g1.Last == g2.Last)
		for i := range g1.Ranges {
			a, b := &g1.Ranges[i], &g2.Ranges[i]
			ok = vp.All(ok, a.Offset0 == b.Offset0, a.Offset1 == b.Offset1, a.R0 == b.R0, a.G0 == b.G0, a.B0 == b.B0, a.A0 == b.A0,
				a.R1 == b.R1, a.G1 == b.G1, a.B1 == b.B1, a.A1 == b.A1)
		}
		vp.Assert(ok, "same stops as a Renderer without the earlier path")
	}
}
