package c18

import (
	"image"
	"image/color"

	"github.com/reactivego/ivg"
	"github.com/reactivego/ivg/decode"
	"github.com/reactivego/ivg/encode"
	"github.com/reactivego/ivg/generate"
	"github.com/reactivego/ivg/render"

	"vph/rec"
	"vph/vp"
)

// The executor marks every package-level variable of every package it
// interprets read-only for the whole run of a harness, and the harnesses mark
// the shared inputs read-only: a store into any of them on a feasible path is
// an obligation failure (kind "frame"). On top of that the harnesses interleave
// two independent pipelines operation by operation and require each to produce
// exactly what it produces alone: with no shared writable location there is no
// data race and every schedule computes the sequential results.

var _ = vp.Reg("DecodeFootprint", H_DecodeFootprint)
var _ = vp.Reg("InterleavedEncoders", H_InterleavedEncoders)
var _ = vp.Reg("InterleavedRenderers", H_InterleavedRenderers)
var _ = vp.Reg("Helpers", H_Helpers)
var _ = vp.Reg("EncoderLifecycle", H_EncoderLifecycle)

// H_DecodeFootprint: decoding / disassembling arbitrary instruction bytes
// with palette options writes neither the input nor the caller's palette nor
// any package-level variable.
func H_DecodeFootprint() {
	L := vp.Param("L", 4)
	tail := vp.Bytes("b", L)
	vp.Assume(int(tail[0]>>4) == vp.Choice("op", 16))
	src := append([]byte{0x89, 0x49, 0x56, 0x47, 0x00}, tail...)
	vp.ReadOnly(src)
	pal := ivg.DefaultPalette
	pal[2] = color.RGBA{vp.U8("r"), vp.U8("g"), vp.U8("b"), 0xff}
	keep := pal
	opts := []decode.DecodeOption{decode.WithPalette(pal), decode.WithColorAt(5, color.NRGBA{vp.U8("nr"), 0x20, 0x30, vp.U8("na")})}
	switch vp.Choice("dest", 5) {
	case 0:
		var d rec.Dest
		decode.Decode(&d, src, opts...)
	case 1:
		var z render.Renderer
		var ras rec.Raster
		z.SetRasterizer(&ras, image.Rect(0, 0, 8, 8))
		decode.Decode(&z, src, opts...)
	case 2:
		var e encode.Encoder
		// re-encoding numbers forks on floating point conditions: one byte less
		decode.Decode(&e, src[:len(src)-1], opts...)
		e.Bytes()
	case 3:
		decode.DecodeViewBox(src)
	case 4:
		decode.Disassemble(src)
	}
	vp.Reach("decoded")
	vp.Assert(pal == keep, "the caller's palette array is not modified")
}

type step struct {
	k    int
	a, b float32
	adj  uint8
	c    ivg.Color
}

func apply(d ivg.Destination, s step) {
	switch s.k {
	case 0:
		d.SetCSel(s.adj)
	case 1:
		d.SetCReg(0, true, s.c)
	case 2:
		d.SetNReg(s.adj%7, false, s.a)
	case 3:
		d.StartPath(0, s.a, s.b)
	case 4:
		d.AbsLineTo(s.a, s.b)
	case 5:
		d.RelQuadTo(s.a, s.b, s.b, s.a)
	case 6:
		d.ClosePathEndPath()
	}
}

func progA() []step {
	return []step{{k: 0, adj: vp.U8("a_sel")}, {k: 1, c: ivg.RGBAColor(color.RGBA{vp.U8("a_r"), 0x10, 0x20, 0xff})}, {k: 3, a: 1, b: 2}, {k: 4, a: 3, b: 4}, {k: 5, a: 5, b: 6}, {k: 6}}
}
func progB() []step {
	return []step{{k: 2, adj: vp.U8("b_adj"), a: 9}, {k: 0, adj: vp.U8("b_sel")}, {k: 3, a: -7, b: 8}, {k: 5, a: 2, b: -3}, {k: 4, a: 11, b: 12}, {k: 6}}
}

func sameBytes(a, b []byte) bool {
	if len(a) != len(b) {
		return false
	}
	ok := true
	for i := range a {
		ok = vp.And(ok, a[i] == b[i])
	}
	return ok
}

// H_InterleavedEncoders: two Encoders (zero-value or reset, chosen freely)
// driven alternately produce the bytes each produces alone.
func H_InterleavedEncoders() {
	A, B := progA(), progB()
	resetA, resetB := vp.Choice("resetA", 2) == 1, vp.Choice("resetB", 2) == 1
	mk := func(e *encode.Encoder, reset bool) {
		if reset {
			e.Reset(ivg.DefaultViewBox, ivg.DefaultPalette)
		}
	}
	var a1, b1, a2, b2 encode.Encoder
	mk(&a1, resetA)
	for _, s := range A {
		apply(&a1, s)
	}
	soloA, _ := a1.Bytes()
	soloA = append([]byte(nil), soloA...)
	mk(&b1, resetB)
	for _, s := range B {
		apply(&b1, s)
	}
	soloB, _ := b1.Bytes()
	soloB = append([]byte(nil), soloB...)
	mk(&a2, resetA)
	mk(&b2, resetB)
	for i := range A {
		apply(&a2, A[i])
		apply(&b2, B[i])
	}
	mixA, _ := a2.Bytes()
	mixB, _ := b2.Bytes()
	vp.Reach("encoded")
	vp.Assert(sameBytes(mixA, soloA), "an Encoder interleaved with another produces the bytes it produces alone")
	vp.Assert(sameBytes(mixB, soloB), "the other Encoder likewise")
}

func sameRLog(a, b []rec.RCall) bool {
	if len(a) != len(b) {
		return false
	}
	ok := true
	for i := range a {
		x, y := &a[i], &b[i]
		ok = vp.All(ok, x.Op == y.Op, x.N == y.N,
			vp.SameF32(x.A[0], y.A[0]), vp.SameF32(x.A[1], y.A[1]), vp.SameF32(x.A[2], y.A[2]),
			vp.SameF32(x.A[3], y.A[3]), vp.SameF32(x.A[4], y.A[4]), vp.SameF32(x.A[5], y.A[5]))
		if x.Op == rec.ROpDraw && y.Op == rec.ROpDraw {
			r1, g1, b1, a1 := x.Src.At(1, 2).RGBA()
			r2, g2, b2, a2 := y.Src.At(1, 2).RGBA()
			ok = vp.All(ok, r1 == r2, g1 == g2, b1 == b2, a1 == a2)
		}
	}
	return ok
}

func gradient(d ivg.Destination, first color.RGBA) {
	g := generate.Generator{Destination: d}
	g.SetLinearGradient(-8, 0, 8, 0, generate.GradientSpreadPad,
		[]generate.GradientStop{{Offset: 0, Color: first}, {Offset: 1, Color: color.RGBA{0, 0, 0xff, 0xff}}})
}

// H_InterleavedRenderers: two Renderers painting gradient paths, interleaved
// between StartPath and ClosePathEndPath, paint what each paints alone (the
// paints are sampled when they are handed to Draw and again at the end).
func H_InterleavedRenderers() {
	c1 := color.RGBA{vp.U8("r1"), 0, 0, 0xff}
	c2 := color.RGBA{0, vp.U8("g2"), 0, 0xff}
	run := func(z *render.Renderer, ras *rec.Raster, c color.RGBA, stage int) {
		switch stage {
		case 0:
			z.SetRasterizer(ras, image.Rect(0, 0, 16, 16))
			z.Reset(ivg.DefaultViewBox, ivg.DefaultPalette)
			gradient(z, c)
		case 1:
			z.StartPath(0, -16, -16)
			z.AbsLineTo(16, -16)
		case 2:
			z.AbsLineTo(16, 16)
			z.ClosePathEndPath()
		}
	}
	var za, zb, ya, yb render.Renderer
	var ra, rb, sa, sb rec.Raster
	for st := 0; st < 3; st++ {
		run(&za, &ra, c1, st)
	}
	for st := 0; st < 3; st++ {
		run(&zb, &rb, c2, st)
	}
	for st := 0; st < 3; st++ {
		run(&ya, &sa, c1, st)
		run(&yb, &sb, c2, st)
	}
	vp.Reach("rendered")
	vp.Assert(sameRLog(sa.Log, ra.Log), "a Renderer interleaved with another paints what it paints alone")
	vp.Assert(sameRLog(sb.Log, rb.Log), "the other Renderer likewise")
}

// H_Helpers: colour and viewBox helpers are pure: they write nothing shared
// (the executor's monitor) and leave the package defaults and the palettes
// they are handed as they are. The palettes hold arbitrary entries (gradient
// encodings and non-premultiplied values included) at the indices resolved.
func H_Helpers() {
	c := color.RGBA{vp.U8("r"), vp.U8("g"), vp.U8("b"), vp.U8("a")}
	col := ivg.RGBAColor(c)
	pal, creg := ivg.DefaultPalette, ivg.DefaultPalette
	pal[3] = color.RGBA{vp.U8("pr"), vp.U8("pg"), vp.U8("pb"), vp.U8("pa")}
	creg[5] = color.RGBA{vp.U8("cr"), vp.U8("cg"), vp.U8("cb"), vp.U8("ca")}
	keepPal, keepCreg := pal, creg
	col.Resolve(&pal, &creg)
	ivg.PaletteIndexColor(3).Resolve(&pal, &creg)
	ivg.CRegColor(5).Resolve(&pal, &creg)
	ivg.BlendColor(vp.U8("t"), 0x80+3, 0xc0+5).Resolve(&pal, &creg) // blend of palette[3] and creg[5]
	ivg.BlendColor(vp.U8("t2"), 0x80, 0xc1).Resolve(&pal, &creg)
	_ = col.String()
	ivg.DecodeColor1(vp.U8("x"))
	ivg.DecodeGradient(c)
	ivg.EncodeGradient(1, 2, 1, 2, 3)
	ivg.ValidGradient(c)
	ivg.ValidAlphaPremulColor(c)
	col.Encode1()
	col.Encode2()
	col.Encode3Direct()
	col.Encode4()
	ivg.DefaultViewBox.AspectMeet(10, 20, 0.5, 0.5)
	ivg.DefaultViewBox.AspectSlice(10, 20, 0, 1)
	ivg.DefaultViewBox.Size()
	vp.Reach("called")
	vp.Assert(pal == keepPal && creg == keepCreg, "helpers do not modify the palettes they are given")
	vp.Assert(ivg.DefaultMetadata.ViewBox == ivg.DefaultViewBox, "package defaults are unchanged")
}

// H_EncoderLifecycle: a zero-value Encoder that is queried before anything is
// emitted (Bytes, CSel, NSel, LOD), then Reset with default or custom
// metadata, then driven, writes nothing outside itself (the executor's
// monitor) and leaves a second, untouched zero-value Encoder's output alone.
func H_EncoderLifecycle() {
	var e, other encode.Encoder
	switch vp.Choice("getter", 5) {
	case 1:
		e.Bytes()
	case 2:
		e.CSel()
	case 3:
		e.NSel()
	case 4:
		e.LOD()
	}
	vb, pal := ivg.DefaultViewBox, ivg.DefaultPalette
	shared := pal
	switch vp.Choice("meta", 3) {
	case 1:
		vb = ivg.ViewBox{MinX: -24, MinY: -24, MaxX: 24, MaxY: 24}
	case 2:
		pal[0] = color.RGBA{vp.U8("r"), vp.U8("g"), vp.U8("b"), 0xff}
		shared = pal
	}
	if vp.Choice("reset", 2) == 1 {
		e.Reset(vb, pal)
	}
	for _, s := range progA() {
		apply(&e, s)
	}
	e.Bytes()
	vp.Reach("encoded")
	vp.Assert(pal == shared, "the palette handed to Reset is not modified")
	out, err := other.Bytes()
	vp.Assert(err == nil && len(out) == 5 && out[0] == 0x89 && out[1] == 'I' && out[2] == 'V' && out[3] == 'G' && out[4] == 0,
		"an untouched zero-value Encoder still emits the default header")
}
