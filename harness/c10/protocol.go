package c10

import (
	"github.com/reactivego/ivg"
	"github.com/reactivego/ivg/encode"

	"vph/drive"
	"vph/vp"
)

var _ = vp.Reg("Step", H_Step)
var _ = vp.Reg("Observers", H_Observers)
var _ = vp.Reg("ZeroValue", H_ZeroValue)

// Specification automaton: mode 0 fresh, 1 styling, 2 drawing; err sticky.
type auto struct {
	mode int
	err  bool
}

func (a auto) next(k int, adj uint8, incr bool) auto {
	if k == drive.KReset {
		return auto{1, false}
	}
	if a.err {
		return a
	}
	if drive.IsStyling(k) {
		if a.mode == 2 {
			return auto{a.mode, true}
		}
		a.mode = 1
		if drive.UsesAdj(k) {
			hasIncr := k != drive.KStartPath
			if vp.Or(adj > 6, vp.All(hasIncr, incr, adj != 0)) {
				return auto{a.mode, true}
			}
		}
		if k == drive.KStartPath {
			a.mode = 2
		}
		return a
	}
	// drawing operations
	if a.mode != 2 {
		return auto{a.mode, true}
	}
	if k == drive.KClosePathEndPath {
		a.mode = 1
	}
	return a
}

var verbs = [...]byte{0, 'L', 'l', 'T', 't', 'Q', 'q', 'S', 's', 'C', 'c', 'A', 'a', 'H', 'h', 'V', 'v'}

// arbitraryState builds an Encoder state satisfying the representation
// invariant Inv_E (checked inductively by H_Step itself):
// mode in {0,1,2}; drawOp is 0 or a run-forming verb; len(drawArgs) is a
// multiple of the verb's operand count and 0 when drawOp is 0; outside
// drawing mode nothing is pending; an error held in drawing mode is the
// styling-ops-in-drawing-mode error.
func arbitraryState() encode.VPEnc {
	s := encode.VPEnc{
		Mode: uint8(vp.Choice("mode", 3)),
		CSel: vp.U8("csel"), NSel: vp.U8("nsel"), LOD0: vp.F32("lod0"), LOD1: vp.F32("lod1"),
		HiRes: vp.Bool("hires"), HiResCur: vp.Bool("hirescur"),
	}
	if vp.Choice("haserr", 2) == 1 {
		s.Err = encode.VPErr(vp.Choice("which", 4))
	}
	s.Buf = append([]byte{0x89, 0x49, 0x56, 0x47, 0x00}, vp.Bytes("buf", 2)...)
	if s.Mode == 0 {
		s.Buf = nil
	}
	if s.Mode == 2 {
		s.DrawOp = verbs[vp.Choice("pending", len(verbs))]
		if n := nargs(s.DrawOp); n > 0 {
			reps := 1 + vp.Choice("reps", 2)
			for i := 0; i < n*reps; i++ {
				s.DrawArgs = append(s.DrawArgs, float32(i%7)-3)
			}
			if s.DrawOp == 'A' || s.DrawOp == 'a' {
				for r := 0; r < reps; r++ {
					s.DrawArgs[6*r+2] = 0.25
					s.DrawArgs[6*r+3] = float32(vp.Choice("flags", 4))
				}
			}
		}
	}
	return s
}

func inv(s *encode.VPEnc) bool {
	if s.Mode > 2 {
		return false
	}
	// in drawing mode the only error that can have been recorded is "styling ops
	// used in drawing mode" (every other error is raised in styling mode and
	// then StartPath refuses to enter drawing mode)
	if s.Mode == 2 && s.Err != nil && s.Err != encode.VPErr(3) {
		return false
	}
	n := nargs(s.DrawOp)
	if s.DrawOp == 0 {
		return len(s.DrawArgs) == 0
	}
	if n <= 0 || s.Mode != 2 {
		// Z, Y, y and the one-operand verbs are flushed immediately or on the next
		// verb; a pending verb with zero operands, or outside drawing mode, is not allowed
		return false
	}
	return len(s.DrawArgs)%n == 0 && len(s.DrawArgs) > 0
}

func anyArgs(k int) drive.Args {
	var a drive.Args
	a.Adj, a.Incr = vp.U8("adj"), vp.Bool("incr")
	a.LargeArc, a.Sweep = vp.Bool("large"), vp.Bool("sweep")
	if k == drive.KSetCReg {
		a.Color = drive.AnyColor()
	}
	for i := 0; i < drive.NArgs(k); i++ {
		a.F[i] = float32(i) + 0.5
	}
	a.ViewBox = ivg.DefaultViewBox
	a.Palette = ivg.DefaultPalette
	return a
}

// H_Step: any one API call from an arbitrary state related to the automaton.
func H_Step() {
	s := arbitraryState()
	vp.Assume(inv(&s))
	var e encode.Encoder
	e.VPSet(&s)
	a := auto{int(s.Mode), s.Err != nil}
	k := vp.Choice("call", drive.NumCalls)
	args := anyArgs(k)
	drive.Do(&e, k, &args)
	b := a.next(k, args.Adj, args.Incr)
	post := e.VPGet()
	vp.Reach("stepped")
	vp.Assert((post.Err != nil) == b.err, "Encoder holds an error exactly when the history violated the protocol")
	if !b.err {
		vp.Assert(int(post.Mode) == b.mode, "Encoder mode follows the specification automaton")
	}
	vp.Assert(inv(&post), "representation invariant is preserved")
	if a.err && k != drive.KReset {
		vp.Assert(post.Err == s.Err, "the first error is kept until Reset")
	}
	_, err := e.Bytes()
	vp.Assert((err != nil) == b.err, "Bytes reports an error exactly when the automaton is in the error state")
	vp.Assert(vp.Implies(err != nil, err == post.Err), "Bytes reports the stored (first) error")
}

// H_Observers: the selector / LOD observers and Bytes never set an error and
// move a fresh Encoder to styling mode.
func H_Observers() {
	s := arbitraryState()
	vp.Assume(inv(&s))
	var e encode.Encoder
	e.VPSet(&s)
	switch vp.Choice("obs", 4) {
	case 0:
		e.CSel()
	case 1:
		e.NSel()
	case 2:
		e.LOD()
	case 3:
		e.Bytes()
	}
	post := e.VPGet()
	vp.Reach("observed")
	vp.Assert(post.Err == s.Err, "observers do not change the error state")
	want := s.Mode
	if want == 0 {
		want = 1
	}
	if s.Err == nil {
		vp.Assert(post.Mode == want, "observers leave the mode alone (a fresh Encoder becomes a styling-mode Encoder)")
	}
	vp.Assert(inv(&post), "representation invariant is preserved")
}

// H_ZeroValue: a zero-value Encoder is observationally equal to one reset
// with the default metadata, before and after one further call.
func H_ZeroValue() {
	var z, r encode.Encoder
	r.Reset(ivg.DefaultViewBox, ivg.DefaultPalette)
	k := vp.Choice("call", drive.NumCalls+1)
	if k < drive.NumCalls {
		args := anyArgs(k)
		drive.Do(&z, k, &args)
		drive.Do(&r, k, &args)
	}
	vp.Reach("called")
	zl0, zl1 := z.LOD()
	rl0, rl1 := r.LOD()
	vp.Assert(vp.And(vp.SameF32(zl0, rl0), vp.SameF32(zl1, rl1)), "zero-value Encoder reports the same LOD as a reset one")
	vp.Assert(vp.And(z.CSel() == r.CSel(), z.NSel() == r.NSel()), "zero-value Encoder reports the same selectors as a reset one")
	zb, zerr := z.Bytes()
	rb, rerr := r.Bytes()
	vp.Assert(zerr == rerr, "zero-value Encoder reports the same error as a reset one")
	vp.Assert(len(zb) == len(rb), "zero-value Encoder produces as many bytes as a reset one")
	if len(zb) == len(rb) {
		same := true
		for i := range zb {
			same = vp.And(same, zb[i] == rb[i])
		}
		vp.Assert(same, "zero-value Encoder produces the same bytes as a reset one")
	}
}

// nargs is the operand count of a pending drawing verb as the Encoder's API
// defines it (arcs carry rx, ry, rotation, flags, x, y); -1: not a verb.
func nargs(op byte) int {
	switch op {
	case 'L', 'l', 'T', 't', 'Y', 'y':
		return 2
	case 'Q', 'q', 'S', 's':
		return 4
	case 'C', 'c', 'A', 'a':
		return 6
	case 'H', 'h', 'V', 'v':
		return 1
	case 'Z':
		return 0
	}
	return -1
}
