package c17

import (
	"image"
	"image/color"

	"github.com/reactivego/ivg"
	"github.com/reactivego/ivg/encode"
	"github.com/reactivego/ivg/render"

	"vph/drive"
	"vph/rec"
	"vph/vp"
)

var _ = vp.Reg("EncoderReset", H_EncoderReset)
var _ = vp.Reg("BytesTwice", H_BytesTwice)
var _ = vp.Reg("RendererReset", H_RendererReset)

var verbs = [...]byte{0, 'L', 'l', 'T', 't', 'Q', 'q', 'S', 's', 'C', 'c', 'A', 'a', 'H', 'h', 'V', 'v'}

// dirty: an arbitrary (possibly erroneous, mid-path) Encoder state.
func dirty() encode.VPEnc {
	s := encode.VPEnc{
		Mode: uint8(vp.Choice("mode", 3)),
		CSel: vp.U8("csel"), NSel: vp.U8("nsel"), LOD0: vp.F32("lod0"), LOD1: vp.F32("lod1"),
		HiRes: vp.Bool("hires"), HiResCur: vp.Bool("hirescur"),
	}
	if vp.Choice("haserr", 2) == 1 {
		s.Err = encode.VPErr(vp.Choice("which", 4))
	}
	s.Buf = append(make([]byte, 0, 64), vp.Bytes("buf", 7)...)
	s.AltBuf = append(make([]byte, 0, 16), vp.Bytes("alt", 3)...)
	if s.Mode == 2 {
		s.DrawOp = verbs[vp.Choice("pending", len(verbs))]
		if n := nargs(s.DrawOp); n > 0 {
			for i := 0; i < n; i++ {
				s.DrawArgs = append(s.DrawArgs, float32(i)-2)
			}
		}
	}
	return s
}

func sameBytes(a, b []byte) bool {
	if len(a) != len(b) {
		return false
	}
	ok := true
	for i := range a {
		ok = vp.And(ok, a[i] == b[i])
	}
	return ok
}

// program issues a well-formed program of K choices after Reset.
func program(e *encode.Encoder, K int, picks []int, args []drive.Args) {
	for i := 0; i < K; i++ {
		drive.Do(e, picks[i], &args[i])
	}
}

// H_EncoderReset: Reset from an arbitrary dirty state, then K arbitrary calls
// and Bytes: identical to a zero-value Encoder given the same Reset and calls;
// and right after Reset every field equals the fresh one's (buffer capacity aside).
func H_EncoderReset() {
	K := vp.Param("K", 2)
	var a, b encode.Encoder
	if vp.Choice("history", 2) == 1 {
		// a real earlier use (state a change may keep outside the fields dirty() knows):
		// custom metadata, selector and register traffic, high resolution, a path
		// abandoned in the middle of a run
		hp := ivg.DefaultPalette
		hp[2] = color.RGBA{0x10, 0x20, 0x30, 0xff}
		a.Reset(ivg.ViewBox{MinX: -8, MinY: -8, MaxX: 8, MaxY: 8}, hp)
		a.HighResolutionCoordinates = true
		a.SetCSel(5)
		a.SetCReg(0, true, ivg.RGBAColor(color.RGBA{0x40, 0, 0, 0xff}))
		a.SetLOD(1, 2)
		a.StartPath(0, 1, 1)
		a.AbsLineTo(2, 2)
		a.AbsLineTo(3, 3)
		a.HighResolutionCoordinates = false
	}
	s := dirty()
	a.VPSet(&s)
	// every combination of default / custom viewBox and palette: the all-default
	// Reset is the one a decoder-driven transcode issues most often
	vb := ivg.DefaultViewBox
	if vp.Choice("vb", 2) == 1 {
		vb = ivg.ViewBox{MinX: -24, MinY: -24, MaxX: 24, MaxY: 24}
	}
	pal := ivg.DefaultPalette
	if vp.Choice("pal", 2) == 1 {
		pal[0] = color.RGBA{vp.U8("r"), vp.U8("g"), vp.U8("b"), 0xff}
	}
	a.Reset(vb, pal)
	b.Reset(vb, pal)
	sa, sb := a.VPGet(), b.VPGet()
	vp.Reach("reset")
	vp.Assert(vp.All(sa.Mode == sb.Mode, sa.Err == sb.Err, sa.DrawOp == sb.DrawOp, len(sa.DrawArgs) == len(sb.DrawArgs),
		sa.CSel == sb.CSel, sa.NSel == sb.NSel, vp.SameF32(sa.LOD0, sb.LOD0), vp.SameF32(sa.LOD1, sb.LOD1),
		sa.HiRes == sb.HiRes, sa.HiResCur == sb.HiResCur, sameBytes(sa.Buf, sb.Buf)),
		"after Reset every field equals a fresh Encoder's after the same Reset")
	for i := 0; i < K; i++ {
		k := vp.Choice("call", drive.NumCalls-1) + 1 // any call but Reset
		var ar drive.Args
		ar.Adj, ar.Incr = vp.U8("adj"), vp.Bool("incr")
		ar.LargeArc, ar.Sweep = vp.Bool("large"), vp.Bool("sweep")
		ar.Color = ivg.RGBAColor(color.RGBA{vp.U8("cr"), vp.U8("cg"), vp.U8("cb"), 0xff})
		for j := 0; j < drive.NArgs(k); j++ {
			ar.F[j] = float32(j + i + 1)
		}
		drive.Do(&a, k, &ar)
		drive.Do(&b, k, &ar)
	}
	ba, ea := a.Bytes()
	bb, eb := b.Bytes()
	vp.Assert(ea == eb, "a reused Encoder reports the same error as a fresh one")
	vp.Assert(sameBytes(ba, bb), "a reused Encoder produces the same bytes as a fresh one")
}

// H_BytesTwice: Bytes is idempotent.
func H_BytesTwice() {
	var e encode.Encoder
	s := dirty()
	e.VPSet(&s)
	b1, e1 := e.Bytes()
	c1 := append([]byte(nil), b1...)
	b2, e2 := e.Bytes()
	vp.Reach("called")
	vp.Assert(e1 == e2, "calling Bytes twice reports the same error")
	vp.Assert(sameBytes(c1, b2), "calling Bytes twice returns equal bytes")
}

func sameRLog(a, b []rec.RCall) bool {
	if len(a) != len(b) {
		return false
	}
	ok := true
	for i := range a {
		x, y := &a[i], &b[i]
		ok = vp.All(ok, x.Op == y.Op, x.N == y.N, x.W == y.W, x.H == y.H, x.R == y.R,
			vp.SameF32(x.A[0], y.A[0]), vp.SameF32(x.A[1], y.A[1]), vp.SameF32(x.A[2], y.A[2]),
			vp.SameF32(x.A[3], y.A[3]), vp.SameF32(x.A[4], y.A[4]), vp.SameF32(x.A[5], y.A[5]))
		if x.Op == rec.ROpDraw && y.Op == rec.ROpDraw {
			r1, g1, b1, a1 := x.Src.At(2, 3).RGBA()
			r2, g2, b2, a2 := y.Src.At(2, 3).RGBA()
			ok = vp.All(ok, r1 == r2, g1 == g2, b1 == b2, a1 == a2)
		}
	}
	return ok
}

func symColors(p string) (a [64]color.RGBA) {
	for i := range a {
		a[i] = color.RGBA{vp.U8(p + "r"), vp.U8(p + "g"), vp.U8(p + "b"), vp.U8(p + "a")}
	}
	return a
}

// H_RendererReset: a Renderer in an arbitrary dirty state (registers,
// selectors, LOD, smooth-curve memory, disabled flag, stale palette) that is
// Reset and then runs a well-formed program produces the same rasteriser
// activity and paints as a zero-value Renderer.
func H_RendererReset() {
	var a, b render.Renderer
	var ra, rb rec.Raster
	r := image.Rect(0, 0, 24, 24)
	a.SetRasterizer(&ra, r)
	b.SetRasterizer(&rb, r)
	if vp.Choice("history", 2) == 1 {
		// a real earlier use of the Renderer (state a change may keep outside the fields the
		// arbitrary dirty state below knows about): a level-of-detail window, register
		// traffic, a gradient paint, a path abandoned in the middle
		a.Reset(ivg.DefaultViewBox, ivg.DefaultPalette)
		a.SetLOD(vp.F32("hl0"), vp.F32("hl1"))
		a.SetNReg(0, true, vp.F32("hn"))
		a.SetCReg(0, false, ivg.RGBAColor(ivg.EncodeGradient(10, 10, 0, 1, 0)))
		a.StartPath(0, 1, 1)
		a.AbsLineTo(2, 2)
	}
	var s render.VPState
	s.CSel, s.NSel, s.LOD0, s.LOD1 = vp.U8("csel"), vp.U8("nsel"), vp.F32("lod0"), vp.F32("lod1")
	s.CReg, s.Palette = symColors("c"), symColors("p")
	for i := range s.NReg {
		s.NReg[i] = vp.F32("n")
	}
	s.Disabled = vp.Bool("disabled")
	s.PrevSmoothType, s.PrevSmoothPointX, s.PrevSmoothPointY = vp.U8("st")%3, vp.F32("sx"), vp.F32("sy")
	s.ViewBox = ivg.ViewBox{MinX: vp.F32("vminx"), MinY: vp.F32("vminy"), MaxX: vp.F32("vmaxx"), MaxY: vp.F32("vmaxy")}
	s.R = r
	s.StaleRanges = vp.Choice("stale", 3) // 0, 1 or 2 ranges left over from an earlier gradient paint
	a.VPSet(&s)
	vb := ivg.ViewBox{MinX: -12, MinY: -12, MaxX: 12, MaxY: 12}
	pal := ivg.DefaultPalette
	pal[1] = color.RGBA{vp.U8("r"), vp.U8("g"), vp.U8("b"), 0xff}
	a.Reset(vb, pal)
	b.Reset(vb, pal)
	// well-formed program: optional register traffic, then a path using the smooth verbs first
	useReg := vp.Choice("useReg", 2) == 1
	nStops := vp.Choice("nstops", 2)
	for _, z := range []*render.Renderer{&a, &b} {
		if useReg {
			z.SetCReg(0, false, ivg.CRegColor(1)) // reads a register: must be the palette's value
		}
		z.StartPath(0, 1, 2)
		z.RelSmoothQuadTo(3, 4) // smooth memory must be clear
		z.AbsSmoothCubeTo(5, 6, 7, 8)
		z.ClosePathEndPath()
		// a path whose paint is a gradient value with 0 or 1 stops: whatever the
		// renderer does with it must not depend on an earlier gradient paint
		z.SetCReg(0, false, ivg.RGBAColor(ivg.EncodeGradient(10, 10, 0, 1, uint8(nStops))))
		z.StartPath(0, 1, 2)
		z.AbsLineTo(3, 4)
		z.ClosePathEndPath()
	}
	vp.Reach("rendered")
	vp.Assert(sameRLog(ra.Log, rb.Log), "a reused Renderer renders exactly like a fresh one")
	sa, sb := a.VPGet(), b.VPGet()
	same := true
	for i := range sa.NReg {
		same = vp.And(same, vp.SameF32(sa.NReg[i], sb.NReg[i]))
	}
	vp.Assert(vp.All(sa.CReg == sb.CReg, same, sa.CSel == sb.CSel, sa.NSel == sb.NSel, vp.SameF32(sa.LOD0, sb.LOD0), vp.SameF32(sa.LOD1, sb.LOD1)),
		"registers, selectors and LOD of a reused Renderer equal a fresh one's")
}

// nargs is the operand count of a pending drawing verb as the Encoder's API
// defines it (arcs carry rx, ry, rotation, flags, x, y); -1: not a verb.
func nargs(op byte) int {
	switch op {
	case 'L', 'l', 'T', 't', 'Y', 'y':
		return 2
	case 'Q', 'q', 'S', 's':
		return 4
	case 'C', 'c', 'A', 'a':
		return 6
	case 'H', 'h', 'V', 'v':
		return 1
	case 'Z':
		return 0
	}
	return -1
}
