package c20

import (
	"strconv"

	"github.com/reactivego/ivg/generate"
	"github.com/reactivego/ivg/mdicons"
	"golang.org/x/image/math/f32"

	"vph/rec"
	"vph/vp"
)

var _ = vp.Reg("NormalizeGen", H_NormalizeGen)
var _ = vp.Reg("NormalizeMD", H_NormalizeMD)
var _ = vp.Reg("Concat", H_Concat)
var _ = vp.Reg("SetPathData", H_SetPathData)
var _ = vp.Reg("ParsePathData", H_ParsePathData)
var _ = vp.Reg("ParsePath", H_ParsePath)

var genVerbs = [...]byte{'M', 'm', 'L', 'l', 'H', 'h', 'V', 'v', 'C', 'c', 'S', 's', 'Q', 'q', 'T', 't', 'A', 'a', '@'}
var genCount = [...]int{2, 2, 2, 2, 1, 1, 1, 1, 6, 6, 4, 4, 4, 4, 2, 2, 7, 7, 2}

// H_NormalizeGen (bit exact): the generator's per-verb transform: absolute
// operands get the whole transform, relative operands only its scale, arc
// radii the scale, arc flags and rotation are untouched.
func H_NormalizeGen() {
	i := vp.Choice("verb", len(genVerbs))
	verb, n := genVerbs[i], genCount[i]
	sx, sy, tx, ty := vp.F32("sx"), vp.F32("sy"), vp.F32("tx"), vp.F32("ty")
	tr := generate.Concat(generate.Scale(sx, sy), generate.Translate(tx, ty))
	var a, in [7]float32
	for j := 0; j < n; j++ {
		a[j] = vp.F32("a")
	}
	in = a
	generate.VPNormalize(&a, n, verb, tr)
	rel := verb >= 'a' && verb <= 'z'
	full := tr
	scale := generate.Aff3{tr[0], 0, 0, 0, tr[4], 0}
	pt := full
	if rel {
		pt = scale
	}
	vp.Reach("normalized")
	ok := true
	switch n {
	case 7:
		rx, ry := generate.MulAff3(in[0], in[1], scale)
		ex, ey := generate.MulAff3(in[5], in[6], pt)
		ok = vp.All(vp.SameF32(a[0], rx), vp.SameF32(a[1], ry), vp.SameF32(a[2], in[2]), vp.SameF32(a[3], in[3]), vp.SameF32(a[4], in[4]),
			vp.SameF32(a[5], ex), vp.SameF32(a[6], ey))
	case 1:
		if verb == 'H' || verb == 'h' {
			x, _ := generate.MulAff3(in[0], 0, pt)
			ok = vp.SameF32(a[0], x)
		} else {
			_, y := generate.MulAff3(0, in[0], pt)
			ok = vp.SameF32(a[0], y)
		}
	default:
		for j := 0; j+1 < n; j += 2 {
			x, y := generate.MulAff3(in[j], in[j+1], pt)
			ok = vp.All(ok, vp.SameF32(a[j], x), vp.SameF32(a[j+1], y))
		}
	}
	vp.Assert(ok, "absolute operands get the full transform, relative operands the scale only, radii the scale, flags and rotation untouched")
}

var mdVerbs = [...]byte{'M', 'm', 'L', 'l', 'H', 'h', 'V', 'v', 'C', 'c', 'S', 's', 'Q', 'q', 'T', 't'}
var mdCount = [...]int{2, 2, 2, 2, 1, 1, 1, 1, 6, 6, 4, 4, 4, 4, 2, 2}

// H_NormalizeMD (bit exact): the converter's transform: scale by outSize/size;
// absolute operands are then centred and offset per axis (H uses the x offset,
// V the y offset), relative operands are only scaled.
func H_NormalizeMD() {
	i := vp.Choice("verb", len(mdVerbs))
	op, n := mdVerbs[i], mdCount[i]
	size, outSize := vp.F32("size"), vp.F32("out")
	off := f32.Vec2{vp.F32("ox"), vp.F32("oy")}
	var a, in [6]float32
	for j := 0; j < n; j++ {
		a[j] = vp.F32("a")
	}
	in = a
	rel := op >= 'a'
	mdicons.VPNormalize(&a, n, op, size, off, outSize, rel)
	vp.Reach("normalized")
	ok := true
	for j := 0; j < n; j++ {
		w := in[j] * (outSize / size)
		if !rel {
			w -= outSize / 2
			axis := j & 1
			if op == 'V' {
				axis = 1
			}
			w -= off[axis]
		}
		ok = vp.And(ok, vp.SameF32(a[j], w))
	}
	vp.Assert(ok, "absolute operands: scale, centre, offset on their own axis; relative operands: scale only")
}

// H_Concat (exact-real reading): concatenating transforms is matrix
// composition in application order: applying Concat(A, B) is applying A, then B.
func H_Concat() {
	var A, B generate.Aff3
	for i := range A {
		A[i], B[i] = vp.F32("a"), vp.F32("b")
	}
	x, y := vp.F32("x"), vp.F32("y")
	C := generate.Concat(A, B)
	cx, cy := generate.MulAff3(x, y, C)
	ax, ay := generate.MulAff3(x, y, A)
	bx, by := generate.MulAff3(ax, ay, B)
	vp.Reach("composed")
	vp.ExactBegin()
	vp.Assert(vp.And(cx == bx, cy == by), "Concat(A, B) applied to a point is B applied to A applied to the point")
	// the scale-and-translate transform the front ends are configured with
	sx, sy, tx, ty := vp.F32("sx"), vp.F32("sy"), vp.F32("tx"), vp.F32("ty")
	px, py := generate.MulAff3(x, y, generate.Concat(generate.Scale(sx, sy), generate.Translate(tx, ty)))
	vp.Assert(vp.And(px == x*sx+tx, py == y*sy+ty), "Concat(Scale, Translate) scales first, then translates")
	vp.ExactEnd()
}

// budget of symbolic digits per path string (the generator's scanner tests
// every byte against each of the ten digit characters, so every arbitrary
// digit multiplies the paths by ten); further digits are concrete.
var symLeft int

// digit is an arbitrary decimal digit byte while the budget lasts.
func digit(name string) byte {
	if symLeft <= 0 {
		return '7'
	}
	symLeft--
	b := vp.U8(name)
	vp.Assume(vp.And(b >= '0', b <= '9'))
	return b
}

// num builds a number token sign? digit [. digit] with arbitrary digits and
// returns its text and its value as the scanner's float parser sees it.
func num(form int) (string, float32) {
	var t []byte
	switch form {
	case 0:
		t = []byte{digit("d")}
	case 1:
		t = []byte{'-', digit("d")}
	case 2:
		t = []byte{digit("d"), '.', digit("d")}
	default:
		t = []byte{'.', digit("d")}
	}
	f, _ := strconv.ParseFloat(string(t), 64)
	return string(t), float32(f)
}

// H_SetPathData: the generator's path-data method on path strings of a fixed
// skeleton whose digits are arbitrary: "M n n <verb> n.. [n.. implicit repeat] z"
// for every verb letter; the emitted operations are the ones the path spells,
// with operands parsed from the right tokens and transformed.
func H_SetPathData() {
	i := vp.Choice("verb", 18) // every verb letter but the start marker
	verb, n := genVerbs[i], genCount[i]
	reps := 1 + vp.Choice("reps", 2)
	form := vp.Choice("form", 4)
	symLeft = vp.Param("digits", 2)
	var want rec.Dest
	d := "M"
	t0, x0 := num(form)
	t1, y0 := num(0)
	d += t0 + " " + t1
	tr := generate.Concat(generate.Scale(2, 2), generate.Translate(-32, -32))
	sx, sy := generate.MulAff3(x0, y0, tr)
	want.StartPath(3, sx, sy)
	for r := 0; r < reps; r++ {
		if r == 0 {
			d += string([]byte{verb})
		} else {
			d += " "
		}
		var a [7]float32
		for j := 0; j < n; j++ {
			f := 0
			if j == 0 {
				f = form
			}
			if n == 7 && (j == 3 || j == 4) {
				f = 0
			}
			// compact notation: a number that starts with a dot directly after a number
			// that already has one ("1.5.25" is 1.5 then .25), no separator in between
			compact := j == 1 && form >= 2 && vp.Choice("compact", 2) == 1
			if compact {
				f = 3
			}
			t, v := num(f)
			if j > 0 && !compact {
				d += ","
			}
			d += t
			a[j] = v
		}
		cur := verb
		if r > 0 && verb == 'M' {
			cur = 'L'
		} else if r > 0 && verb == 'm' {
			cur = 'l'
		}
		generate.VPNormalize(&a, n, cur, tr)
		emit(&want, cur, &a)
	}
	d += "z"
	want.ClosePathEndPath()
	var got rec.Dest
	g := generate.Generator{Destination: &got}
	g.SetTransform(generate.Scale(2, 2), generate.Translate(-32, -32))
	err := g.SetPathData(d, 3)
	vp.Reach("parsed")
	vp.Assert(err == nil, "well-formed path data is accepted")
	vp.Assert(rec.SameLog(got.Log, want.Log), "the operations emitted are the ones the path spells, transformed")
}

func emit(d *rec.Dest, verb byte, a *[7]float32) {
	switch verb {
	case 'M':
		d.ClosePathAbsMoveTo(a[0], a[1])
	case 'm':
		d.ClosePathRelMoveTo(a[0], a[1])
	case 'L':
		d.AbsLineTo(a[0], a[1])
	case 'l':
		d.RelLineTo(a[0], a[1])
	case 'H':
		d.AbsHLineTo(a[0])
	case 'h':
		d.RelHLineTo(a[0])
	case 'V':
		d.AbsVLineTo(a[0])
	case 'v':
		d.RelVLineTo(a[0])
	case 'C':
		d.AbsCubeTo(a[0], a[1], a[2], a[3], a[4], a[5])
	case 'c':
		d.RelCubeTo(a[0], a[1], a[2], a[3], a[4], a[5])
	case 'S':
		d.AbsSmoothCubeTo(a[0], a[1], a[2], a[3])
	case 's':
		d.RelSmoothCubeTo(a[0], a[1], a[2], a[3])
	case 'Q':
		d.AbsQuadTo(a[0], a[1], a[2], a[3])
	case 'q':
		d.RelQuadTo(a[0], a[1], a[2], a[3])
	case 'T':
		d.AbsSmoothQuadTo(a[0], a[1])
	case 't':
		d.RelSmoothQuadTo(a[0], a[1])
	case 'A':
		d.AbsArcTo(a[0], a[1], a[2]/360, a[3] != 0, a[4] != 0, a[5], a[6])
	case 'a':
		d.RelArcTo(a[0], a[1], a[2]/360, a[3] != 0, a[4] != 0, a[5], a[6])
	}
}

// H_ParsePathData: the Material Design converter's dialect on a fixed
// skeleton "M n n <verb> n.. [n.. repeat] [z]" with arbitrary digits and an
// arbitrary (size, offset, outSize) triple.
func H_ParsePathData() {
	i := 2 + vp.Choice("verb", 14) // L l H h V v C c S s Q q T t (moves are exercised by the leading M and the join)
	verb, n := mdVerbs[i], mdCount[i]
	reps := 1 + vp.Choice("reps", 2)
	form := vp.Choice("form", 3) // the converter's scanner: digits, -digits, digits.digits
	symLeft = vp.Param("digits", 4)
	size, outSize := float32(48), float32(vp.U8("out")%64+1)
	off := f32.Vec2{float32(int8(vp.U8("ox")) / 4), 0.5}
	var want rec.Dest
	d := "M"
	t0, x0 := num(form)
	t1, y0 := num(0)
	d += t0 + " " + t1
	var s [6]float32
	s[0], s[1] = x0, y0
	mdicons.VPNormalize(&s, 2, 'M', size, off, outSize, false)
	want.StartPath(2, s[0], s[1])
	for r := 0; r < reps; r++ {
		if r == 0 {
			d += string([]byte{verb})
		} else {
			d += " "
		}
		var a [6]float32
		for j := 0; j < n; j++ {
			f := 0
			if j == 0 {
				f = form
			}
			// compact notation: ".d" directly after "d.d" (two numbers, no separator)
			compact := j == 1 && form == 2 && vp.Choice("compact", 2) == 1
			var t string
			var v float32
			if compact {
				t, v = num(3)
			} else {
				t, v = num(f)
			}
			if j > 0 && !compact {
				d += " "
			}
			d += t
			a[j] = v
		}
		mdicons.VPNormalize(&a, n, verb, size, off, outSize, verb >= 'a')
		var a7 [7]float32
		copy(a7[:], a[:])
		emit(&want, verb, &a7)
	}
	if vp.Choice("join", 2) == 1 {
		d += "zM"
		t2, x2 := num(0)
		t3, y2 := num(0)
		d += t2 + " " + t3
		var m [6]float32
		m[0], m[1] = x2, y2
		mdicons.VPNormalize(&m, 2, 'M', size, off, outSize, false)
		want.ClosePathAbsMoveTo(m[0], m[1])
	}
	d += "z"
	var got rec.Dest
	err := mdicons.ParsePathData(&got, d, 2, size, off, outSize)
	vp.Reach("parsed")
	vp.Assert(err == nil, "well-formed path data is accepted")
	vp.Assert(rec.SameLog(got.Log, want.Log), "the operations emitted are the ones the path spells, transformed (the path is ended by the caller)")
}

// H_ParsePath: opacities become blend registers (one per distinct opacity),
// circles become two half-turn relative arcs appended to the first path, and
// the path is ended exactly once.
func H_ParsePath() {
	adjs := map[float32]uint8{}
	var got rec.Dest
	size, outSize := float32(48), float32(48)
	off := f32.Vec2{0, 0}
	o1, o2 := float32(0.5), float32(0.25)
	cx, cy, r := float32(vp.U8("cx")%48), float32(vp.U8("cy")%48), float32(vp.U8("r")%16+1)
	p1 := &mdicons.Path{D: "M1 2h3z", Opacity: &o1}
	p2 := &mdicons.Path{D: "M4 5v6z", FillOpacity: &o2}
	p3 := &mdicons.Path{D: "M7 8h9z", Opacity: &o1}
	e1 := mdicons.ParsePath(&got, p1, adjs, size, off, outSize, []mdicons.Circle{{Cx: cx, Cy: cy, R: r}})
	e2 := mdicons.ParsePath(&got, p2, adjs, size, off, outSize, nil)
	e3 := mdicons.ParsePath(&got, p3, adjs, size, off, outSize, nil)
	vp.Reach("parsed")
	vp.Assert(e1 == nil && e2 == nil && e3 == nil, "accepted")
	// count register writes, path ends and arcs
	creg, ends, arcs, starts := 0, 0, 0, 0
	_ = starts
	okBlend := true
	for i := range got.Log {
		c := &got.Log[i]
		switch c.Op {
		case rec.OpSetCReg:
			creg++
			x, isBlend := c.Color.Encode3Indirect()
			okBlend = okBlend && isBlend && x[1] == 0x7f && x[2] == 0x80 && !c.Incr
		case rec.OpClosePathEndPath:
			ends++
		case rec.OpRelArcTo:
			arcs++
			okBlend = okBlend && !c.LargeArc && c.Sweep
		case rec.OpStartPath:
			starts++
		}
	}
	vp.Assert(creg == 2, "one register per distinct opacity (0.5 is reused)")
	vp.Assert(okBlend, "the register is a blend of transparent (0x7f) with the first palette colour (0x80); arcs are small sweeping arcs")
	vp.Assert(vp.And(ends == 3, starts == 3), "each path is started and ended exactly once")
	vp.Assert(arcs == 2, "a circle becomes two relative arcs appended to the first path")
	// circles only (no path data): the first circle starts the path, later ones close-and-move
	var only rec.Dest
	e4 := mdicons.ParsePath(&only, &mdicons.Path{}, adjs, size, off, outSize, []mdicons.Circle{{Cx: cx, Cy: cy, R: r}, {Cx: cy, Cy: cx, R: r}})
	starts, ends, arcs, moves := 0, 0, 0, 0
	for i := range only.Log {
		switch only.Log[i].Op {
		case rec.OpStartPath:
			starts++
		case rec.OpClosePathEndPath:
			ends++
		case rec.OpRelArcTo:
			arcs++
		case rec.OpClosePathAbsMoveTo:
			moves++
		}
	}
	vp.Assert(e4 == nil && starts == 1 && ends == 1 && moves == 1 && arcs == 4, "circles without path data: one path, started once, ended once, two arcs per circle")
}

var _ = vp.Reg("Retransform", H_Retransform)

// H_Retransform (bit exact, relational): what SetPathData emits depends on
// the transform configured last and on nothing a Generator did before: a
// Generator that already converted a path under another transform emits, after
// SetTransform, exactly what a fresh Generator with that transform emits.
func H_Retransform() {
	paths := [...]string{"M1 2l3 4h5v6z", "M1 2a3 4 0 0 1 5 6z", "M8 7c1 2 3 4 5 6s1 2 3 4q1 2 3 4t5 6z", "M1 2L3 4H5V6A3 4 0 1 0 5 6z"}
	p := paths[vp.Choice("path", len(paths))]
	a := generate.Concat(generate.Scale(vp.F32("asx"), vp.F32("asy")), generate.Translate(vp.F32("atx"), vp.F32("aty")))
	b := generate.Concat(generate.Scale(vp.F32("bsx"), vp.F32("bsy")), generate.Translate(vp.F32("btx"), vp.F32("bty")))
	var used, fresh rec.Dest
	g := generate.Generator{Destination: &used}
	if vp.Choice("first", 2) == 1 {
		g.SetTransform(a)
	}
	g.SetPathData(paths[0], 1)
	g.SetTransform(b)
	used.Log = nil
	e1 := g.SetPathData(p, 2)
	h := generate.Generator{Destination: &fresh}
	h.SetTransform(b)
	e2 := h.SetPathData(p, 2)
	vp.Reach("converted")
	vp.Assert(vp.And(e1 == nil, e2 == nil), "well-formed path data is accepted")
	vp.Assert(rec.SameLog(used.Log, fresh.Log), "a reused Generator emits what a fresh one with the same transform emits")
}
