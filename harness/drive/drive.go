// Package drive issues Destination calls chosen by the executor: one place
// that enumerates the 28 state-changing methods of the interface, shared by
// the protocol, round-trip and equivalence harnesses.
package drive

import (
	"image/color"

	"github.com/reactivego/ivg"

	"vph/vp"
)

// Call classes.
const (
	KReset = iota
	KSetCSel
	KSetNSel
	KSetCReg
	KSetNReg
	KSetLOD
	KStartPath
	KClosePathEndPath
	KClosePathAbsMoveTo
	KClosePathRelMoveTo
	KAbsHLineTo
	KRelHLineTo
	KAbsVLineTo
	KRelVLineTo
	KAbsLineTo
	KRelLineTo
	KAbsSmoothQuadTo
	KRelSmoothQuadTo
	KAbsQuadTo
	KRelQuadTo
	KAbsSmoothCubeTo
	KRelSmoothCubeTo
	KAbsCubeTo
	KRelCubeTo
	KAbsArcTo
	KRelArcTo
	NumCalls
)

// Args are the arguments of one call.
type Args struct {
	Adj      uint8
	Incr     bool
	LargeArc bool
	Sweep    bool
	Color    ivg.Color
	F        [6]float32
	ViewBox  ivg.ViewBox
	Palette  [64]color.RGBA
}

// IsStyling reports whether k is a styling-mode operation (StartPath included).
func IsStyling(k int) bool { return k >= KSetCSel && k <= KStartPath }

// IsDrawing reports whether k is a drawing-mode operation.
func IsDrawing(k int) bool { return k >= KClosePathEndPath && k < NumCalls }

// UsesAdj reports whether the call takes a register adjustment.
func UsesAdj(k int) bool { return k == KSetCReg || k == KSetNReg || k == KStartPath }

// NArgs is the number of float arguments of call class k.
func NArgs(k int) int {
	switch k {
	case KSetNReg, KAbsHLineTo, KRelHLineTo, KAbsVLineTo, KRelVLineTo:
		return 1
	case KSetLOD, KStartPath, KClosePathAbsMoveTo, KClosePathRelMoveTo, KAbsLineTo, KRelLineTo, KAbsSmoothQuadTo, KRelSmoothQuadTo:
		return 2
	case KAbsQuadTo, KRelQuadTo, KAbsSmoothCubeTo, KRelSmoothCubeTo:
		return 4
	case KAbsCubeTo, KRelCubeTo:
		return 6
	case KAbsArcTo, KRelArcTo:
		return 5
	}
	return 0
}

// Do issues call class k with arguments a on d.
func Do(d ivg.Destination, k int, a *Args) {
	f := &a.F
	switch k {
	case KReset:
		d.Reset(a.ViewBox, a.Palette)
	case KSetCSel:
		d.SetCSel(a.Adj)
	case KSetNSel:
		d.SetNSel(a.Adj)
	case KSetCReg:
		d.SetCReg(a.Adj, a.Incr, a.Color)
	case KSetNReg:
		d.SetNReg(a.Adj, a.Incr, f[0])
	case KSetLOD:
		d.SetLOD(f[0], f[1])
	case KStartPath:
		d.StartPath(a.Adj, f[0], f[1])
	case KClosePathEndPath:
		d.ClosePathEndPath()
	case KClosePathAbsMoveTo:
		d.ClosePathAbsMoveTo(f[0], f[1])
	case KClosePathRelMoveTo:
		d.ClosePathRelMoveTo(f[0], f[1])
	case KAbsHLineTo:
		d.AbsHLineTo(f[0])
	case KRelHLineTo:
		d.RelHLineTo(f[0])
	case KAbsVLineTo:
		d.AbsVLineTo(f[0])
	case KRelVLineTo:
		d.RelVLineTo(f[0])
	case KAbsLineTo:
		d.AbsLineTo(f[0], f[1])
	case KRelLineTo:
		d.RelLineTo(f[0], f[1])
	case KAbsSmoothQuadTo:
		d.AbsSmoothQuadTo(f[0], f[1])
	case KRelSmoothQuadTo:
		d.RelSmoothQuadTo(f[0], f[1])
	case KAbsQuadTo:
		d.AbsQuadTo(f[0], f[1], f[2], f[3])
	case KRelQuadTo:
		d.RelQuadTo(f[0], f[1], f[2], f[3])
	case KAbsSmoothCubeTo:
		d.AbsSmoothCubeTo(f[0], f[1], f[2], f[3])
	case KRelSmoothCubeTo:
		d.RelSmoothCubeTo(f[0], f[1], f[2], f[3])
	case KAbsCubeTo:
		d.AbsCubeTo(f[0], f[1], f[2], f[3], f[4], f[5])
	case KRelCubeTo:
		d.RelCubeTo(f[0], f[1], f[2], f[3], f[4], f[5])
	case KAbsArcTo:
		d.AbsArcTo(f[0], f[1], f[2], a.LargeArc, a.Sweep, f[3], f[4])
	case KRelArcTo:
		d.RelArcTo(f[0], f[1], f[2], a.LargeArc, a.Sweep, f[3], f[4])
	}
}

// AnyColor is an arbitrary Color of every kind (forks on the kind).
func AnyColor() ivg.Color {
	switch vp.Choice("ckind", 4) {
	case 0:
		return ivg.RGBAColor(color.RGBA{vp.U8("cr"), vp.U8("cg"), vp.U8("cb"), vp.U8("ca")})
	case 1:
		return ivg.PaletteIndexColor(vp.U8("ci"))
	case 2:
		return ivg.CRegColor(vp.U8("ci"))
	}
	return ivg.BlendColor(vp.U8("ct"), vp.U8("c0"), vp.U8("c1"))
}

// SmallCoord is an arbitrary coordinate representable in the 1-byte form
// (an integer in [-64, 64)): quantisation and the codec are the identity on it.
func SmallCoord(name string) float32 {
	b := vp.U8(name)
	vp.Assume(b < 128)
	return float32(int32(b) - 64)
}
