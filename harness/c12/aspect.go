package c12

import (
	"github.com/reactivego/ivg"

	"vph/vp"
)

var _ = vp.Reg("Size", H_Size)
var _ = vp.Reg("Fit", H_Fit)
var _ = vp.Reg("KeptDimension", H_KeptDimension)

// H_Size (bit exact): Size is max minus min in each dimension.
func H_Size() {
	v := ivg.ViewBox{MinX: vp.F32("minx"), MinY: vp.F32("miny"), MaxX: vp.F32("maxx"), MaxY: vp.F32("maxy")}
	dx, dy := v.Size()
	vp.Reach("size")
	vp.Assert(vp.SameF32(dx, v.MaxX-v.MinX), "Size: dx = MaxX - MinX")
	vp.Assert(vp.SameF32(dy, v.MaxY-v.MinY), "Size: dy = MaxY - MinY")
}

const (
	lo    = 1.0 / (1 << 62) / (1 << 8) // 2^-70
	hi    = (1 << 62) * (1 << 8)       // 2^70
	ratio = 1 << 30                    // aspect ratios of viewBox and target within [2^-30, 2^30]
	tol   = 8.0 / (1 << 24)            // 8 units of float32 rounding
)

// H_Fit (rounded-real reading): meet and slice for all viewBoxes of positive
// size, all positive target sizes (2^-40..2^40) and alignments in [0,1].
func H_Fit() {
	slice := vp.Choice("slice", 2) == 1
	vw, vh := vp.F32("vw"), vp.F32("vh") // viewBox width and height
	ox, oy := vp.F32("ox"), vp.F32("oy") // viewBox origin
	dx, dy := vp.F32("dx"), vp.F32("dy")
	ax, ay := vp.F32("ax"), vp.F32("ay")
	vp.Assume(vp.All(vw >= lo, vw <= hi, vh >= lo, vh <= hi, dx >= lo, dx <= hi, dy >= lo, dy <= hi))
	vp.Assume(vp.All(ax >= 0, ax <= 1, ay >= 0, ay <= 1, ox >= -hi, ox <= hi, oy >= -hi, oy <= hi))
	vp.ExactBegin()
	vp.Assume(vp.All(vw <= ratio*vh, vh <= ratio*vw, dx <= ratio*dy, dy <= ratio*dx))
	vp.ExactEnd()
	// the viewBox is given by its exact extent: MaxX = ox+vw is assumed exactly
	// representable (the property quantifies over viewBoxes, i.e. over Min/Max pairs;
	// Size() rounds Max-Min once, which is inside the tolerance)
	vp.ExactBegin()
	v := ivg.ViewBox{MinX: ox, MinY: oy, MaxX: ox + vw, MaxY: oy + vh}
	vp.ExactEnd()
	var minX, minY, maxX, maxY float32
	if slice {
		minX, minY, maxX, maxY = v.AspectSlice(dx, dy, ax, ay)
	} else {
		minX, minY, maxX, maxY = v.AspectMeet(dx, dy, ax, ay)
	}
	vp.Reach("fitted")
	// the checks are written in float64 so that the native evaluation (replay) stays
	// faithful when products of two float32 magnitudes leave the float32 range; in the
	// exact-real reading the conversions and the arithmetic below are exact
	vp.ExactBegin()
	x0, y0, x1, y1 := float64(minX), float64(minY), float64(maxX), float64(maxY)
	Dx, Dy, Vw, Vh := float64(dx), float64(dy), float64(vw), float64(vh)
	W, H := x1-x0, y1-y0
	// tolerance: float32 rounding relative to the size of target and result
	// (a sum instead of a maximum keeps the obligation free of case splits)
	e := tol * (Dx + Dy + W + H)
	// aspect: the result is the target in one dimension and the target scaled by the
	// viewBox's aspect ratio in the other (H = dx*vh/vw, written without division)
	A := vp.All(W-Dx <= e, Dx-W <= e, H*Vw-Dx*Vh <= e*Vw, Dx*Vh-H*Vw <= e*Vw)
	B := vp.All(H-Dy <= e, Dy-H <= e, W*Vh-Dy*Vw <= e*Vh, Dy*Vw-W*Vh <= e*Vh)
	vp.Check(vp.Or(A, B), "result equals the target in one dimension and has the viewBox's aspect ratio")
	if slice {
		vp.Check(vp.And(W >= Dx-e, H >= Dy-e), "slice: result covers the target")
		vp.Check(vp.And(x0 <= e, y0 <= e), "slice: result starts at or before the target's origin")
		vp.Check(vp.And(x1 >= Dx-e, y1 >= Dy-e), "slice: result ends at or after the target's far edge")
	} else {
		vp.Check(vp.And(W <= Dx+e, H <= Dy+e), "meet: result fits inside the target")
		vp.Check(vp.And(x0 >= -e, y0 >= -e), "meet: result starts inside the target")
		vp.Check(vp.And(x1 <= Dx+e, y1 <= Dy+e), "meet: result ends inside the target")
	}
	// placement: the slack (or overflow) is divided according to the alignment
	px, py := x0-(Dx-W)*float64(ax), y0-(Dy-H)*float64(ay)
	vp.Check(vp.And(px <= e, -px <= e), "x placement: Min = slack * ax (0 aligns minima, 1/2 centres, 1 aligns maxima)")
	vp.Check(vp.And(py <= e, -py <= e), "y placement: Min = slack * ay")
	vp.ExactEnd()
}

// H_KeptDimension (bit exact): in the dimension kept equal to the target the
// result is exactly [0, target] whatever the alignment; alignment 0 gives Min = 0.
func H_KeptDimension() {
	v := ivg.ViewBox{MinX: vp.F32("minx"), MinY: vp.F32("miny"), MaxX: vp.F32("maxx"), MaxY: vp.F32("maxy")}
	dx, dy := vp.F32("dx"), vp.F32("dy")
	ax, ay := vp.F32("ax"), vp.F32("ay")
	vp.Assume(vp.All(dx > 0, dy > 0, dx <= hi, dy <= hi, ax >= 0, ax <= 1, ay >= 0, ay <= 1))
	var minX, minY, maxX, maxY float32
	if vp.Choice("slice", 2) == 1 {
		minX, minY, maxX, maxY = v.AspectSlice(dx, dy, ax, ay)
	} else {
		minX, minY, maxX, maxY = v.AspectMeet(dx, dy, ax, ay)
	}
	vp.Reach("fitted")
	keptX := vp.And(minX == 0, maxX == dx)
	keptY := vp.And(minY == 0, maxY == dy)
	vp.Assert(vp.Or(keptX, keptY), "one dimension is exactly [0, target]")
	vp.Assert(vp.Implies(vp.And(ax == 0, minX == minX), minX == 0), "ax = 0 aligns the minima exactly")
	vp.Assert(vp.Implies(vp.And(ay == 0, minY == minY), minY == 0), "ay = 0 aligns the minima exactly")
}
