package ref

import "math"

// Arc is the centre parameterisation of an SVG elliptical arc, computed as
// the SVG implementation notes prescribe (F.6.5 "conversion from endpoint to
// center parameterization", F.6.6 "correction of out-of-range radii"), with
// the two customary deviations real implementations share: radii are taken by
// absolute value, and the radicand of the centre offset is clamped at zero.
type Arc struct {
	Cx, Cy         float64 // centre
	Rx, Ry         float64 // radii after the F.6.6 scale-up
	CosPhi, SinPhi float64
	Theta1, Delta  float64 // start angle and signed sweep
	Bx, By         float64 // unit-circle image of the end point
	Ex, Ey         float64 // end point relative to the centre in the rotated frame: (Rx*Bx, Ry*By) = (-x1'-cx', -y1'-cy')
	N              int     // number of cubic segments: ceil(|Delta| / (pi/2 + 0.001))
}

// angle is the signed angle from u to v (F.6.5.4).
func angle(ux, uy, vx, vy float64) float64 {
	norm := math.Sqrt(ux*ux+uy*uy) * math.Sqrt(vx*vx+vy*vy)
	c := (ux*vx + uy*vy) / norm
	r := 0.0
	if c <= -1 {
		r = math.Pi
	} else if c >= +1 {
		r = 0
	} else {
		r = math.Acos(c)
	}
	if ux*vy < uy*vx {
		return -r
	}
	return +r
}

// NewArc converts from (x1,y1) to (x2,y2), radii rx, ry, x-axis rotation in
// turns, and the two flags.
func NewArc(x1, y1, x2, y2, rx, ry, turns float64, large, sweep bool) Arc {
	var a Arc
	a.Rx, a.Ry = math.Abs(rx), math.Abs(ry)
	phi := 2 * math.Pi * turns
	a.CosPhi, a.SinPhi = math.Cos(phi), math.Sin(phi)
	// F.6.5.1
	hx, hy := (x1-x2)/2, (y1-y2)/2
	x1p := +a.CosPhi*hx + a.SinPhi*hy
	y1p := -a.SinPhi*hx + a.CosPhi*hy
	// F.6.6
	rx2, ry2 := a.Rx*a.Rx, a.Ry*a.Ry
	x1p2, y1p2 := x1p*x1p, y1p*y1p
	if l := x1p2/rx2 + y1p2/ry2; l > 1 {
		s := math.Sqrt(l)
		a.Rx *= s
		a.Ry *= s
		rx2, ry2 = a.Rx*a.Rx, a.Ry*a.Ry
	}
	// F.6.5.2
	k := 0.0
	if q := rx2*ry2/(rx2*y1p2+ry2*x1p2) - 1; q > 0 {
		k = math.Sqrt(q)
	}
	if large == sweep {
		k = -k
	}
	cxp := +k * a.Rx * y1p / a.Ry
	cyp := -k * a.Ry * x1p / a.Rx
	// F.6.5.3
	a.Cx = a.CosPhi*cxp - a.SinPhi*cyp + (x1+x2)/2
	a.Cy = a.SinPhi*cxp + a.CosPhi*cyp + (y1+y2)/2
	// F.6.5.5, F.6.5.6
	ax, ay := (+x1p-cxp)/a.Rx, (+y1p-cyp)/a.Ry
	a.Bx, a.By = (-x1p-cxp)/a.Rx, (-y1p-cyp)/a.Ry
	a.Ex, a.Ey = -x1p-cxp, -y1p-cyp
	a.Theta1 = angle(1, 0, ax, ay)
	a.Delta = angle(ax, ay, a.Bx, a.By)
	if sweep {
		if a.Delta < 0 {
			a.Delta += 2 * math.Pi
		}
	} else {
		if a.Delta > 0 {
			a.Delta -= 2 * math.Pi
		}
	}
	a.N = int(math.Ceil(math.Abs(a.Delta) / (math.Pi/2 + 0.001)))
	return a
}

// Point is the point of the ellipse at angle theta, in user space.
func (a *Arc) Point(theta float64) (x, y float64) {
	ex, ey := a.Rx*math.Cos(theta), a.Ry*math.Sin(theta)
	return a.Cx + a.CosPhi*ex - a.SinPhi*ey, a.Cy + a.SinPhi*ex + a.CosPhi*ey
}

// Segment returns the control points and end point of the cubic that
// approximates the ellipse from angle t1 to t2 (the formula librsvg and the
// renderer document: tangent length 8 sin^2(d/4) / (3 sin(d/2)), d = t2-t1).
func (a *Arc) Segment(t1, t2 float64) (p [6]float64) {
	h := (t2 - t1) * 0.5
	q := math.Sin(h * 0.5)
	t := (8 * q * q) / (3 * math.Sin(h))
	c1, s1, c2, s2 := math.Cos(t1), math.Sin(t1), math.Cos(t2), math.Sin(t2)
	pt := func(ex, ey float64) (float64, float64) {
		return a.Cx + a.CosPhi*ex - a.SinPhi*ey, a.Cy + a.SinPhi*ex + a.CosPhi*ey
	}
	p[0], p[1] = pt(a.Rx*(c1-t*s1), a.Ry*(s1+t*c1))
	p[2], p[3] = pt(a.Rx*(c2+t*s2), a.Ry*(s2-t*c2))
	p[4], p[5] = pt(a.Rx*c2, a.Ry*s2)
	return p
}
