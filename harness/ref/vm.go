package ref

import (
	"image/color"

	"github.com/reactivego/ivg"
)

// VM is the register machine of the "Registers", "Level of Detail" and
// "Colors and Gradients" sections: 64 colour and 64 number registers
// addressed modulo 64, two 6-bit selectors, two LOD bounds, the palette.
type VM struct {
	CReg    [64]color.RGBA
	NReg    [64]float32
	CSel    uint8 // always < 64
	NSel    uint8 // always < 64
	LOD0    float32
	LOD1    float32
	Palette [64]color.RGBA
}

func (m *VM) Reset(palette [64]color.RGBA) {
	m.Palette = palette
	m.CReg = palette
	m.NReg = [64]float32{}
	m.CSel, m.NSel = 0, 0
	m.LOD0, m.LOD1 = 0, inf()
}

func inf() float32 {
	var z float32
	return 1 / z
}

func (m *VM) SetCSel(x uint8) { m.CSel = x % 64 }
func (m *VM) SetNSel(x uint8) { m.NSel = x % 64 }

// Resolve gives the RGBA value of c in the machine's context, at the time of
// the call (colours are resolved when stored).
func (m *VM) Resolve(c ivg.Color) color.RGBA {
	if x, ok := c.Encode4(); ok {
		return color.RGBA{x[0], x[1], x[2], x[3]}
	}
	if x, ok := c.Encode3Indirect(); ok {
		r0 := Resolve1(x[1], &m.Palette, &m.CReg)
		r1 := Resolve1(x[2], &m.Palette, &m.CReg)
		t := x[0]
		return color.RGBA{Blend(t, r0.R, r1.R), Blend(t, r0.G, r1.G), Blend(t, r0.B, r1.B), Blend(t, r0.A, r1.A)}
	}
	// palette index or register: the 1-byte code says which
	x, _ := c.Encode1()
	return Resolve1(x, &m.Palette, &m.CReg)
}

func (m *VM) SetCReg(adj uint8, incr bool, c ivg.Color) {
	m.CReg[(m.CSel+64-adj%64)%64] = m.Resolve(c)
	if incr {
		m.CSel = (m.CSel + 1) % 64
	}
}

// SetCRegResolved stores an already resolved colour.
func (m *VM) SetCRegResolved(adj uint8, incr bool, c color.RGBA) {
	m.CReg[(m.CSel+64-adj%64)%64] = c
	if incr {
		m.CSel = (m.CSel + 1) % 64
	}
}

func (m *VM) SetNReg(adj uint8, incr bool, f float32) {
	m.NReg[(m.NSel+64-adj%64)%64] = f
	if incr {
		m.NSel = (m.NSel + 1) % 64
	}
}

func (m *VM) SetLOD(l0, l1 float32) { m.LOD0, m.LOD1 = l0, l1 }

// Paint kinds.
const (
	PaintNone = iota
	PaintFlat
	PaintGradient
)

// Paint is what a path started with adjustment adj on a raster of height h
// is filled with: nothing, a flat colour, or the gradient described by the
// selected register.
type Paint struct {
	Kind   int
	Flat   color.RGBA
	NStops int
	CBase  uint8
	NBase  uint8
	Shape  uint8 // 0 linear, 1 radial
	Spread uint8 // 0 none, 1 pad, 2 reflect, 3 repeat
}

func premul(c color.RGBA) bool { return c.R <= c.A && c.G <= c.A && c.B <= c.A }

// PaintFor evaluates the paint. For gradients with fewer than 2 stops the
// specification is silent; ok2 reports that the stop count is at least 2.
func (m *VM) PaintFor(adj uint8, h float32) (p Paint, ok2 bool) {
	ok2 = true
	c := m.CReg[(m.CSel+64-adj%64)%64]
	inLOD := m.LOD0 <= h && h < m.LOD1
	if premul(c) {
		if c.A == 0 || !inLOD {
			return Paint{}, true
		}
		return Paint{Kind: PaintFlat, Flat: c}, true
	}
	if c.A != 0 || c.B&0x80 == 0 {
		return Paint{}, true // non-premultiplied, not a gradient
	}
	p = Paint{Kind: PaintGradient, NStops: int(c.R & 0x3f), CBase: c.G & 0x3f, NBase: c.B & 0x3f, Shape: (c.B >> 6) & 1, Spread: c.G >> 6}
	if p.NStops < 2 {
		ok2 = false
	}
	prev := float32(-1)
	for i := 0; i < p.NStops; i++ {
		sc := m.CReg[(int(p.CBase)+i)%64]
		so := m.NReg[(int(p.NBase)+i)%64]
		if !premul(sc) || !(0 <= so && so <= 1) || !(so > prev) {
			return Paint{}, ok2
		}
		prev = so
	}
	if !inLOD {
		return Paint{}, ok2
	}
	return p, ok2
}
