// Package ref holds reference models written from spec/iconvg-spec-v0.md,
// independent of the implementation under test.
package ref

import (
	"image/color"

	"github.com/reactivego/ivg"
)

// Color1 is the 1-byte colour table of the "Colors" section: values below 125
// are base-5 RGB digits from {00,40,80,c0,ff} with full alpha; 125..127 are
// c0c0c0c0, 80808080, 00000000; 128..191 palette indices; 192..255 CREG.
func Color1(x uint8) ivg.Color {
	if x >= 192 {
		return ivg.CRegColor(x - 192)
	}
	if x >= 128 {
		return ivg.PaletteIndexColor(x - 128)
	}
	if x == 127 {
		return ivg.RGBAColor(color.RGBA{0, 0, 0, 0})
	}
	if x == 126 {
		return ivg.RGBAColor(color.RGBA{0x80, 0x80, 0x80, 0x80})
	}
	if x == 125 {
		return ivg.RGBAColor(color.RGBA{0xc0, 0xc0, 0xc0, 0xc0})
	}
	b := x % 5
	g := (x / 5) % 5
	r := x / 25
	return ivg.RGBAColor(color.RGBA{digit(r), digit(g), digit(b), 0xff})
}

// digit maps a base-5 digit to its channel value: 0,1,2,3,4 -> 00,40,80,c0,ff.
func digit(d uint8) uint8 {
	v := d * 0x40 // 0,0x40,0x80,0xc0,0x100 (wraps to 0)
	if d == 4 {
		v = 0xff
	}
	return v
}

// Color2 expands the four nibbles rgba.
func Color2(b0, b1 uint8) ivg.Color {
	return ivg.RGBAColor(color.RGBA{0x11 * (b0 >> 4), 0x11 * (b0 & 15), 0x11 * (b1 >> 4), 0x11 * (b1 & 15)})
}

// Color3 is the direct 3-byte form: opaque rgb.
func Color3(b0, b1, b2 uint8) ivg.Color {
	return ivg.RGBAColor(color.RGBA{b0, b1, b2, 0xff})
}

// Color4 is the 4-byte form.
func Color4(b0, b1, b2, b3 uint8) ivg.Color {
	return ivg.RGBAColor(color.RGBA{b0, b1, b2, b3})
}

// Blend is one channel of the blend formula.
func Blend(t, c0, c1 uint8) uint8 {
	p, q := uint32(255-t), uint32(t)
	return uint8((p*uint32(c0) + q*uint32(c1) + 128) / 255)
}

// Resolve1 resolves a 1-byte colour against palette and registers, as the
// specification prescribes for blend operands.
func Resolve1(x uint8, palette, creg *[64]color.RGBA) color.RGBA {
	if x >= 192 {
		return creg[x-192]
	}
	if x >= 128 {
		return palette[x-128]
	}
	c, _ := Color1(x).Encode4()
	return color.RGBA{c[0], c[1], c[2], c[3]}
}
