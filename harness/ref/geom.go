package ref

import (
	"vph/rec"
)

// Geom is the reference for path geometry: the affine map taking the viewBox
// onto a w x h rectangle, the pen, the sub-path start and the smooth-curve
// memory, as SVG path semantics and the specification prescribe.
type Geom struct {
	MinX, MinY, MaxX, MaxY float32
	W, H                   int
	PenX, PenY             float32
	StartX, StartY         float32
	Smooth                 uint8 // 0 none, 1 quadratic, 2 cubic
	CtlX, CtlY             float32
	Out                    []rec.RCall
}

func (g *Geom) sx() float32 { return float32(g.W) / (g.MaxX - g.MinX) }
func (g *Geom) sy() float32 { return float32(g.H) / (g.MaxY - g.MinY) }

// AbsX maps an absolute viewBox x to pixels: s * (x - min), written with the
// negated minimum as an addend (x + (-min) and x - min are the same IEEE operation).
func (g *Geom) AbsX(x float32) float32 { return g.sx() * (x + -g.MinX) }
func (g *Geom) AbsY(y float32) float32 { return g.sy() * (y + -g.MinY) }
func (g *Geom) RelX(x float32) float32 { return g.PenX + g.sx()*x }
func (g *Geom) RelY(y float32) float32 { return g.PenY + g.sy()*y }

func (g *Geom) emit(op uint8, n int, a ...float32) {
	c := rec.RCall{Op: op, N: n}
	copy(c.A[:], a)
	g.Out = append(g.Out, c)
}

func (g *Geom) moveTo(x, y float32) {
	g.PenX, g.PenY, g.StartX, g.StartY = x, y, x, y
	g.Smooth = 0
	g.emit(rec.ROpMoveTo, 2, x, y)
}

func (g *Geom) lineTo(x, y float32) {
	g.PenX, g.PenY = x, y
	g.Smooth = 0
	g.emit(rec.ROpLineTo, 2, x, y)
}

func (g *Geom) quadTo(x1, y1, x, y float32) {
	g.PenX, g.PenY = x, y
	g.Smooth, g.CtlX, g.CtlY = 1, x1, y1
	g.emit(rec.ROpQuadTo, 4, x1, y1, x, y)
}

func (g *Geom) cubeTo(x1, y1, x2, y2, x, y float32) {
	g.PenX, g.PenY = x, y
	g.Smooth, g.CtlX, g.CtlY = 2, x2, y2
	g.emit(rec.ROpCubeTo, 6, x1, y1, x2, y2, x, y)
}

// reflect is the implicit control point of a smooth curve of the given degree.
func (g *Geom) reflect(kind uint8) (float32, float32) {
	if g.Smooth != kind {
		return g.PenX, g.PenY
	}
	return 2*g.PenX - g.CtlX, 2*g.PenY - g.CtlY
}

func (g *Geom) closePath() {
	g.PenX, g.PenY = g.StartX, g.StartY
	g.emit(rec.ROpClosePath, 0)
}

func (g *Geom) StartPath(x, y float32) {
	g.Out = append(g.Out, rec.RCall{Op: rec.ROpReset, W: g.W, H: g.H})
	g.PenX, g.PenY = 0, 0
	g.moveTo(g.AbsX(x), g.AbsY(y))
}
func (g *Geom) ClosePathAbsMoveTo(x, y float32) { g.closePath(); g.moveTo(g.AbsX(x), g.AbsY(y)) }
func (g *Geom) ClosePathRelMoveTo(x, y float32) { g.closePath(); g.moveTo(g.RelX(x), g.RelY(y)) }
func (g *Geom) AbsHLineTo(x float32)            { g.lineTo(g.AbsX(x), g.PenY) }
func (g *Geom) RelHLineTo(x float32)            { g.lineTo(g.RelX(x), g.PenY) }
func (g *Geom) AbsVLineTo(y float32)            { g.lineTo(g.PenX, g.AbsY(y)) }
func (g *Geom) RelVLineTo(y float32)            { g.lineTo(g.PenX, g.RelY(y)) }
func (g *Geom) AbsLineTo(x, y float32)          { g.lineTo(g.AbsX(x), g.AbsY(y)) }
func (g *Geom) RelLineTo(x, y float32)          { g.lineTo(g.RelX(x), g.RelY(y)) }
func (g *Geom) AbsSmoothQuadTo(x, y float32) {
	x1, y1 := g.reflect(1)
	g.quadTo(x1, y1, g.AbsX(x), g.AbsY(y))
}
func (g *Geom) RelSmoothQuadTo(x, y float32) {
	x1, y1 := g.reflect(1)
	g.quadTo(x1, y1, g.RelX(x), g.RelY(y))
}
func (g *Geom) AbsQuadTo(x1, y1, x, y float32) {
	g.quadTo(g.AbsX(x1), g.AbsY(y1), g.AbsX(x), g.AbsY(y))
}
func (g *Geom) RelQuadTo(x1, y1, x, y float32) {
	g.quadTo(g.RelX(x1), g.RelY(y1), g.RelX(x), g.RelY(y))
}
func (g *Geom) AbsSmoothCubeTo(x2, y2, x, y float32) {
	x1, y1 := g.reflect(2)
	g.cubeTo(x1, y1, g.AbsX(x2), g.AbsY(y2), g.AbsX(x), g.AbsY(y))
}
func (g *Geom) RelSmoothCubeTo(x2, y2, x, y float32) {
	x1, y1 := g.reflect(2)
	g.cubeTo(x1, y1, g.RelX(x2), g.RelY(y2), g.RelX(x), g.RelY(y))
}
func (g *Geom) AbsCubeTo(x1, y1, x2, y2, x, y float32) {
	g.cubeTo(g.AbsX(x1), g.AbsY(y1), g.AbsX(x2), g.AbsY(y2), g.AbsX(x), g.AbsY(y))
}
func (g *Geom) RelCubeTo(x1, y1, x2, y2, x, y float32) {
	g.cubeTo(g.RelX(x1), g.RelY(y1), g.RelX(x2), g.RelY(y2), g.RelX(x), g.RelY(y))
}
