package ref

import (
	"image/color"
	"math"

	"github.com/reactivego/ivg"
)

// Number forms ("Numbers" section). n == 0 means the input ended inside the
// number.

func Natural(b []byte) (v uint32, n int) {
	if len(b) < 1 {
		return 0, 0
	}
	if b[0]&1 == 0 {
		return uint32(b[0]) / 2, 1
	}
	if b[0]&2 == 0 {
		if len(b) < 2 {
			return 0, 0
		}
		return (uint32(b[0]) + 256*uint32(b[1])) / 4, 2
	}
	if len(b) < 4 {
		return 0, 0
	}
	return (uint32(b[0]) + 256*uint32(b[1]) + 65536*uint32(b[2]) + 16777216*uint32(b[3])) / 4, 4
}

func Real(b []byte) (float32, int) {
	v, n := Natural(b)
	if n == 4 {
		return math.Float32frombits(v * 4), 4
	}
	return float32(v), n
}

func Coordinate(b []byte) (float32, int) {
	v, n := Natural(b)
	switch n {
	case 1:
		return float32(v) - 64, 1
	case 2:
		return float32(v)/64 - 128, 2
	case 4:
		return math.Float32frombits(v * 4), 4
	}
	return 0, 0
}

func ZeroToOne(b []byte) (float32, int) {
	v, n := Natural(b)
	switch n {
	case 1:
		return float32(v) / 120, 1
	case 2:
		return float32(v) / 15120, 2
	case 4:
		return math.Float32frombits(v * 4), 4
	}
	return 0, 0
}

// Mode of the instruction decoder.
const (
	Styling = 0
	Drawing = 1
)

// StylingStep decodes one styling-mode instruction at the start of b,
// delivers it to d and reports the bytes consumed and the next mode. ok is
// false for reserved opcodes and incomplete operands.
func StylingStep(d ivg.Destination, b []byte) (n int, mode int, ok bool) {
	op := b[0]
	adj := op & 7
	incr := adj == 7
	if incr {
		adj = 0
	}
	switch {
	case op <= 0x3f:
		d.SetCSel(op & 0x3f)
		return 1, Styling, true
	case op <= 0x7f:
		d.SetNSel(op & 0x3f)
		return 1, Styling, true
	case op <= 0xa7:
		var c ivg.Color
		w := 0
		a := b[1:]
		switch (op - 0x80) / 8 {
		case 0:
			w = 1
			if len(a) >= w {
				c = Color1(a[0])
			}
		case 1:
			w = 2
			if len(a) >= w {
				c = Color2(a[0], a[1])
			}
		case 2:
			w = 3
			if len(a) >= w {
				c = Color3(a[0], a[1], a[2])
			}
		case 3:
			w = 4
			if len(a) >= w {
				c = Color4(a[0], a[1], a[2], a[3])
			}
		case 4:
			w = 3
			if len(a) >= w {
				c = ivg.BlendColor(a[0], a[1], a[2])
			}
		}
		if len(a) < w {
			return 0, 0, false
		}
		d.SetCReg(adj, incr, c)
		return 1 + w, Styling, true
	case op <= 0xbf:
		var f float32
		m := 0
		switch (op - 0xa8) / 8 {
		case 0:
			f, m = Real(b[1:])
		case 1:
			f, m = Coordinate(b[1:])
		case 2:
			f, m = ZeroToOne(b[1:])
		}
		if m == 0 {
			return 0, 0, false
		}
		d.SetNReg(adj, incr, f)
		return 1 + m, Styling, true
	case op <= 0xc6:
		x, m1 := Coordinate(b[1:])
		if m1 == 0 {
			return 0, 0, false
		}
		y, m2 := Coordinate(b[1+m1:])
		if m2 == 0 {
			return 0, 0, false
		}
		d.StartPath(op&7, x, y)
		return 1 + m1 + m2, Drawing, true
	case op == 0xc7:
		l0, m1 := Real(b[1:])
		if m1 == 0 {
			return 0, 0, false
		}
		l1, m2 := Real(b[1+m1:])
		if m2 == 0 {
			return 0, 0, false
		}
		d.SetLOD(l0, l1)
		return 1 + m1 + m2, Styling, true
	}
	return 0, 0, false
}

// coords decodes k coordinates.
func coords(b []byte, k int, out *[6]float32) (n int, ok bool) {
	for i := 0; i < k; i++ {
		f, m := Coordinate(b[n:])
		if m == 0 {
			return 0, false
		}
		out[i] = f
		n += m
	}
	return n, true
}

// DrawingStep decodes one drawing-mode instruction (with all its repeats).
func DrawingStep(d ivg.Destination, b []byte) (n int, mode int, ok bool) {
	op := b[0]
	n = 1
	var a [6]float32
	if op <= 0xdf {
		rc := 1 + int(op&0x0f)
		if op <= 0x3f {
			rc = 1 + int(op&0x1f)
		}
		group := op >> 4
		if op <= 0x3f {
			group = op >> 5 // 0: L, 1: l
		} else {
			group = op>>4 - 2 // 2: T, 3: t, 4: Q ... 11: a
		}
		for i := 0; i < rc; i++ {
			if group >= 10 {
				// arcs: rx ry rotation flags x y
				m, ok := coords(b[n:], 2, &a)
				if !ok {
					return 0, 0, false
				}
				n += m
				rot, m1 := ZeroToOne(b[n:])
				if m1 == 0 {
					return 0, 0, false
				}
				n += m1
				fl, m2 := Natural(b[n:])
				if m2 == 0 {
					return 0, 0, false
				}
				n += m2
				var e [6]float32
				m, ok = coords(b[n:], 2, &e)
				if !ok {
					return 0, 0, false
				}
				n += m
				if group == 10 {
					d.AbsArcTo(a[0], a[1], rot, fl&1 != 0, fl&2 != 0, e[0], e[1])
				} else {
					d.RelArcTo(a[0], a[1], rot, fl&1 != 0, fl&2 != 0, e[0], e[1])
				}
				continue
			}
			k := 2
			if group >= 4 {
				k = 4
			}
			if group >= 8 {
				k = 6
			}
			m, ok := coords(b[n:], k, &a)
			if !ok {
				return 0, 0, false
			}
			n += m
			switch group {
			case 0:
				d.AbsLineTo(a[0], a[1])
			case 1:
				d.RelLineTo(a[0], a[1])
			case 2:
				d.AbsSmoothQuadTo(a[0], a[1])
			case 3:
				d.RelSmoothQuadTo(a[0], a[1])
			case 4:
				d.AbsQuadTo(a[0], a[1], a[2], a[3])
			case 5:
				d.RelQuadTo(a[0], a[1], a[2], a[3])
			case 6:
				d.AbsSmoothCubeTo(a[0], a[1], a[2], a[3])
			case 7:
				d.RelSmoothCubeTo(a[0], a[1], a[2], a[3])
			case 8:
				d.AbsCubeTo(a[0], a[1], a[2], a[3], a[4], a[5])
			case 9:
				d.RelCubeTo(a[0], a[1], a[2], a[3], a[4], a[5])
			}
		}
		return n, Drawing, true
	}
	switch op {
	case 0xe1:
		d.ClosePathEndPath()
		return 1, Styling, true
	case 0xe2, 0xe3:
		m, ok := coords(b[1:], 2, &a)
		if !ok {
			return 0, 0, false
		}
		if op == 0xe2 {
			d.ClosePathAbsMoveTo(a[0], a[1])
		} else {
			d.ClosePathRelMoveTo(a[0], a[1])
		}
		return 1 + m, Drawing, true
	case 0xe6, 0xe7, 0xe8, 0xe9:
		m, ok := coords(b[1:], 1, &a)
		if !ok {
			return 0, 0, false
		}
		switch op {
		case 0xe6:
			d.AbsHLineTo(a[0])
		case 0xe7:
			d.RelHLineTo(a[0])
		case 0xe8:
			d.AbsVLineTo(a[0])
		case 0xe9:
			d.RelVLineTo(a[0])
		}
		return 1 + m, Drawing, true
	}
	return 0, 0, false
}

// Meta is the decoded metadata section.
type Meta struct {
	ViewBox ivg.ViewBox
	Palette [64]color.RGBA
	// Ordered is false when MIDs repeat or decrease: the specification
	// forbids such streams, the property does not say what a decoder does
	// with them, so the harnesses do not compare acceptance there.
	Ordered bool
}

func finite(f float32) bool { return math.Float32bits(f)&0x7f800000 != 0x7f800000 }

// Metadata decodes the chunk count and the chunks at the start of b (after
// the magic identifier).
func Metadata(b []byte) (m Meta, n int, ok bool) {
	m.ViewBox = ivg.ViewBox{MinX: -32, MinY: -32, MaxX: 32, MaxY: 32}
	for i := range m.Palette {
		m.Palette[i] = color.RGBA{0, 0, 0, 0xff}
	}
	m.Ordered = true
	count, k := Natural(b)
	if k == 0 {
		return m, 0, false
	}
	n = k
	last := -1
	for ; count > 0; count-- {
		length, k := Natural(b[n:])
		if k == 0 {
			return m, 0, false
		}
		n += k
		start := n
		mid, k := Natural(b[n:])
		if k == 0 {
			return m, 0, false
		}
		n += k
		if int(mid) <= last {
			m.Ordered = false
		}
		last = int(mid)
		switch mid {
		case 0:
			var v [6]float32
			k, ok := coords(b[n:], 4, &v)
			if !ok {
				return m, 0, false
			}
			n += k
			if v[0] > v[2] || v[1] > v[3] || !finite(v[0]) || !finite(v[1]) || !finite(v[2]) || !finite(v[3]) {
				return m, 0, false
			}
			m.ViewBox = ivg.ViewBox{MinX: v[0], MinY: v[1], MaxX: v[2], MaxY: v[3]}
		case 1:
			if len(b[n:]) < 1 {
				return m, 0, false
			}
			cnt := 1 + int(b[n]&0x3f)
			w := 1 + int(b[n]>>6)
			n++
			for j := 0; j < cnt; j++ {
				a := b[n:]
				if len(a) < w {
					return m, 0, false
				}
				var c color.RGBA
				switch w {
				case 1:
					c = direct(Color1(a[0]))
				case 2:
					c = direct(Color2(a[0], a[1]))
				case 3:
					c = direct(Color3(a[0], a[1], a[2]))
				case 4:
					c = direct(Color4(a[0], a[1], a[2], a[3]))
				}
				m.Palette[j] = c
				n += w
			}
		default:
			return m, 0, false
		}
		if uint64(n-start) != uint64(length) {
			return m, 0, false
		}
	}
	return m, n, true
}

// direct is the suggested-palette sanitisation: indirect colours and
// non-premultiplied colours are opaque black.
func direct(c ivg.Color) color.RGBA {
	x, ok := c.Encode4()
	if !ok || x[0] > x[3] || x[1] > x[3] || x[2] > x[3] {
		return color.RGBA{0, 0, 0, 0xff}
	}
	return color.RGBA{x[0], x[1], x[2], x[3]}
}

// Decode is the whole-stream reference decoder.
func Decode(d ivg.Destination, b []byte) (ok bool, ordered bool) {
	if len(b) < 4 || b[0] != 0x89 || b[1] != 0x49 || b[2] != 0x56 || b[3] != 0x47 {
		return false, true
	}
	m, n, ok := Metadata(b[4:])
	if !ok {
		return false, m.Ordered
	}
	d.Reset(m.ViewBox, m.Palette)
	b = b[4+n:]
	mode := Styling
	for len(b) > 0 {
		k, next := 0, 0
		if mode == Styling {
			k, next, ok = StylingStep(d, b)
		} else {
			k, next, ok = DrawingStep(d, b)
		}
		if !ok {
			return false, m.Ordered
		}
		b = b[k:]
		mode = next
	}
	return true, m.Ordered
}
