package c16

import (
	"testing"

	"vph/vp"
)

func TestReplay(t *testing.T) { vp.Replay(t) }
