package c16

import (
	"image"
	"image/color"
	"image/draw"

	"github.com/reactivego/ivg"
	"github.com/reactivego/ivg/raster/vec"
	"github.com/reactivego/ivg/render"

	"vph/drive"
	"vph/rec"
	"vph/vp"
)

// Pixels are produced by golang.org/x/image/vector and image/draw, which are
// outside the model (assembly, accumulation buffers). What this repository
// contributes to the pixel-invariance property is decided here; no obligation
// looks at a pixel.

var _ = vp.Reg("DrawOp", H_DrawOp)
var _ = vp.Reg("Origin", H_Origin)
var _ = vp.Reg("IndirectTwin", H_IndirectTwin)

// H_DrawOp: vec.Rasterizer.Draw hands the configured compositing operator to
// the embedded rasteriser for this call only; the next call composites
// source-over.
func H_DrawOp() {
	dst := image.NewRGBA(image.Rect(0, 0, 4, 4))
	z := vec.NewRasterizer(dst)
	op := draw.Op(vp.Choice("op", 2)) // Over, Src
	z.DrawOp = op
	src := image.NewUniform(color.RGBA{0x10, 0x20, 0x30, 0xff})
	z.Draw(image.Rect(0, 0, 4, 4), src, image.Point{})
	vp.Reach("drawn")
	vp.Assert(z.Rasterizer.DrawOp == op, "the embedded rasteriser draws with the configured operator")
	vp.Assert(z.DrawOp == draw.Over, "after the first Draw the operator is source-over")
	z.Draw(image.Rect(0, 0, 4, 4), src, image.Point{})
	vp.Assert(z.Rasterizer.DrawOp == draw.Over, "later paths composite source-over")
}

func sameRLogButRect(a, b []rec.RCall) bool {
	if len(a) != len(b) {
		return false
	}
	ok := true
	for i := range a {
		x, y := &a[i], &b[i]
		ok = vp.All(ok, x.Op == y.Op, x.N == y.N, x.W == y.W, x.H == y.H, x.SP == y.SP,
			vp.SameF32(x.A[0], y.A[0]), vp.SameF32(x.A[1], y.A[1]), vp.SameF32(x.A[2], y.A[2]),
			vp.SameF32(x.A[3], y.A[3]), vp.SameF32(x.A[4], y.A[4]), vp.SameF32(x.A[5], y.A[5]))
	}
	return ok
}

// H_Origin (2-safety): the same graphic drawn into a rectangle at any origin
// and into a rectangle of the same size at the origin issues the same
// rasteriser calls; Draw gets the rectangle itself with source point (0,0), so
// a device pixel p samples the paint at p - r.Min (gradient paints are built
// in rectangle-relative pixel space).
func H_Origin() {
	w, h := 1+int(vp.U8("w")), 1+int(vp.U8("h"))
	ox, oy := int(vp.I32("ox"))>>8, int(vp.I32("oy"))>>8
	var z1, z2 render.Renderer
	var r1, r2 rec.Raster
	z1.SetRasterizer(&r1, image.Rect(0, 0, w, h))
	z2.SetRasterizer(&r2, image.Rect(ox, oy, ox+w, oy+h))
	vb := ivg.ViewBox{MinX: vp.F32("minx"), MinY: vp.F32("miny"), MaxX: vp.F32("maxx"), MaxY: vp.F32("maxy")}
	pal := ivg.DefaultPalette
	grad := vp.Choice("gradient", 2) == 1
	for _, z := range []*render.Renderer{&z1, &z2} {
		z.Reset(vb, pal)
		if grad {
			z.SetCReg(0, false, ivg.RGBAColor(ivg.EncodeGradient(10, 10, 0, 1, 2)))
			z.SetCSel(10)
			z.SetCReg(0, true, ivg.RGBAColor(color.RGBA{0xff, 0, 0, 0xff}))
			z.SetCReg(0, true, ivg.RGBAColor(color.RGBA{0, 0, 0xff, 0xff}))
			z.SetCSel(0)
			z.SetNSel(10)
			z.SetNReg(6, false, 0.25)
			z.SetNReg(4, false, 0.5)
			z.SetNReg(0, true, 0)
			z.SetNReg(0, true, 1)
		}
		z.StartPath(0, 1, 2)
		z.AbsLineTo(3, 4)
		z.RelSmoothCubeTo(1, 2, 3, 4)
		z.ClosePathEndPath()
	}
	vp.Reach("rendered")
	vp.Assert(sameRLogButRect(r1.Log, r2.Log), "rasteriser calls do not depend on the rectangle's origin")
	n := len(r2.Log)
	if n > 0 && r2.Log[n-1].Op == rec.ROpDraw {
		d1, d2 := r1.Log[len(r1.Log)-1], r2.Log[n-1]
		vp.Assert(vp.All(d2.R == image.Rect(ox, oy, ox+w, oy+h), d2.SP == image.Point{}), "Draw covers exactly the target rectangle, source point (0,0)")
		x, y := int(vp.U8("px")), int(vp.U8("py"))
		a1, b1, c1, e1 := d1.Src.At(x, y).RGBA()
		a2, b2, c2, e2 := d2.Src.At(x, y).RGBA()
		vp.Assert(vp.All(a1 == a2, b1 == b2, c1 == c2, e1 == e2), "the paint, in rectangle-relative coordinates, does not depend on the origin")
	}
}

// H_IndirectTwin: a register written through a palette index, a register
// reference or a blend holds exactly the colour its direct twin holds, from
// any machine state: so the two programs hand identical paints to Draw.
func H_IndirectTwin() {
	var z1, z2 render.Renderer
	var r1, r2 rec.Raster
	z1.SetRasterizer(&r1, image.Rect(0, 0, 8, 8))
	z2.SetRasterizer(&r2, image.Rect(0, 0, 8, 8))
	var s render.VPState
	s.CSel = vp.U8("csel")
	for i := range s.CReg {
		s.CReg[i] = color.RGBA{vp.U8("cr"), vp.U8("cg"), vp.U8("cb"), vp.U8("ca")}
		s.Palette[i] = color.RGBA{vp.U8("pr"), vp.U8("pg"), vp.U8("pb"), vp.U8("pa")}
	}
	s.ViewBox = ivg.DefaultViewBox
	s.R = image.Rect(0, 0, 8, 8)
	s.LOD1 = 100
	z1.VPSet(&s)
	z2.VPSet(&s)
	c := drive.AnyColor()
	adj, incr := vp.U8("adj")%7, vp.Bool("incr")
	direct := ivg.RGBAColor(c.Resolve(&s.Palette, &s.CReg))
	z1.SetCReg(adj, incr, c)
	z2.SetCReg(adj, incr, direct)
	vp.Reach("stored")
	vp.Assert(z1.VPGet().CReg == z2.VPGet().CReg, "an indirect colour stores what its direct twin stores")
	padj := vp.U8("padj") % 7
	z1.StartPath(padj, 1, 2)
	z2.StartPath(padj, 1, 2)
	k1, f1, _ := z1.VPFill()
	k2, f2, _ := z2.VPFill()
	vp.Assert(vp.And(k1 == k2, z1.VPGet().Disabled == z2.VPGet().Disabled), "both programs choose the same kind of paint")
	vp.Assert(vp.Implies(k1 == 1, f1 == f2), "both programs paint with the same flat colour")
}
