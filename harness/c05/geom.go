package c05

import (
	"image"

	"github.com/reactivego/ivg"
	"github.com/reactivego/ivg/render"

	"vph/drive"
	"vph/rec"
	"vph/ref"
	"vph/vp"
)

var _ = vp.Reg("VerbStep", H_VerbStep)
var _ = vp.Reg("StartAndEnd", H_StartAndEnd)

func sameRLog(a, b []rec.RCall) bool {
	if len(a) != len(b) {
		return false
	}
	ok := true
	for i := range a {
		x, y := &a[i], &b[i]
		ok = vp.All(ok, x.Op == y.Op, x.N == y.N, x.W == y.W, x.H == y.H,
			vp.SameF32(x.A[0], y.A[0]), vp.SameF32(x.A[1], y.A[1]), vp.SameF32(x.A[2], y.A[2]),
			vp.SameF32(x.A[3], y.A[3]), vp.SameF32(x.A[4], y.A[4]), vp.SameF32(x.A[5], y.A[5]))
	}
	return ok
}

// setup builds an enabled, mid-path Renderer in an arbitrary geometric state:
// arbitrary viewBox, rectangle (origin and size), pen, sub-path start and
// smooth-curve memory; and the reference in the same state.
func setup(z *render.Renderer, ras *rec.Raster) *ref.Geom {
	vb := ivg.ViewBox{MinX: vp.F32("minx"), MinY: vp.F32("miny"), MaxX: vp.F32("maxx"), MaxY: vp.F32("maxy")}
	w, h := 1+int(vp.U16("w")), 1+int(vp.U16("h"))
	ox, oy := int(vp.I32("ox"))>>8, int(vp.I32("oy"))>>8 // any origin within +-2^23
	s := render.VPState{
		ViewBox: vb, R: image.Rect(ox, oy, ox+w, oy+h),
		PrevSmoothType: uint8(vp.Choice("smooth", 3)), PrevSmoothPointX: vp.F32("cx"), PrevSmoothPointY: vp.F32("cy"),
		LOD1: 1,
	}
	z.SetRasterizer(ras, s.R)
	z.VPSet(&s)
	// pen and sub-path start: any two points (start first, then the pen)
	sx0, sy0, px, py := vp.F32("startx"), vp.F32("starty"), vp.F32("penx"), vp.F32("peny")
	ras.MoveTo(sx0, sy0)
	ras.LineTo(px, py)
	ras.Log = nil
	return &ref.Geom{MinX: vb.MinX, MinY: vb.MinY, MaxX: vb.MaxX, MaxY: vb.MaxY, W: w, H: h,
		PenX: px, PenY: py, StartX: sx0, StartY: sy0, Smooth: s.PrevSmoothType, CtlX: s.PrevSmoothPointX, CtlY: s.PrevSmoothPointY}
}

func doRef(g *ref.Geom, k int, a *drive.Args) {
	f := &a.F
	switch k {
	case drive.KClosePathAbsMoveTo:
		g.ClosePathAbsMoveTo(f[0], f[1])
	case drive.KClosePathRelMoveTo:
		g.ClosePathRelMoveTo(f[0], f[1])
	case drive.KAbsHLineTo:
		g.AbsHLineTo(f[0])
	case drive.KRelHLineTo:
		g.RelHLineTo(f[0])
	case drive.KAbsVLineTo:
		g.AbsVLineTo(f[0])
	case drive.KRelVLineTo:
		g.RelVLineTo(f[0])
	case drive.KAbsLineTo:
		g.AbsLineTo(f[0], f[1])
	case drive.KRelLineTo:
		g.RelLineTo(f[0], f[1])
	case drive.KAbsSmoothQuadTo:
		g.AbsSmoothQuadTo(f[0], f[1])
	case drive.KRelSmoothQuadTo:
		g.RelSmoothQuadTo(f[0], f[1])
	case drive.KAbsQuadTo:
		g.AbsQuadTo(f[0], f[1], f[2], f[3])
	case drive.KRelQuadTo:
		g.RelQuadTo(f[0], f[1], f[2], f[3])
	case drive.KAbsSmoothCubeTo:
		g.AbsSmoothCubeTo(f[0], f[1], f[2], f[3])
	case drive.KRelSmoothCubeTo:
		g.RelSmoothCubeTo(f[0], f[1], f[2], f[3])
	case drive.KAbsCubeTo:
		g.AbsCubeTo(f[0], f[1], f[2], f[3], f[4], f[5])
	case drive.KRelCubeTo:
		g.RelCubeTo(f[0], f[1], f[2], f[3], f[4], f[5])
	}
}

// H_VerbStep: K consecutive non-arc drawing operations from an arbitrary
// mid-path state: the rasteriser receives exactly the reference's segments,
// bit for bit, and the smooth-curve memory evolves as specified.
func H_VerbStep() {
	var z render.Renderer
	var ras rec.Raster
	g := setup(&z, &ras)
	K := vp.Param("K", 1)
	for i := 0; i < K; i++ {
		k := drive.KClosePathAbsMoveTo + vp.Choice("verb", drive.KAbsArcTo-drive.KClosePathAbsMoveTo)
		var a drive.Args
		for j := 0; j < drive.NArgs(k); j++ {
			a.F[j] = vp.F32("f")
		}
		drive.Do(&z, k, &a)
		doRef(g, k, &a)
	}
	vp.Reach("drawn")
	vp.Assert(sameRLog(ras.Log, g.Out), "rasteriser receives the mapped segments the operations spell")
	s := z.VPGet()
	vp.Assert(s.PrevSmoothType == g.Smooth, "smooth-curve memory: kind of the previous operation")
	if g.Smooth != 0 {
		vp.Assert(vp.And(vp.SameF32(s.PrevSmoothPointX, g.CtlX), vp.SameF32(s.PrevSmoothPointY, g.CtlY)), "smooth-curve memory: previous control point")
	}
	px, py := ras.Pen()
	vp.Assert(vp.And(vp.SameF32(px, g.PenX), vp.SameF32(py, g.PenY)), "pen is where the reference's pen is")
}

// H_StartAndEnd: StartPath resets the rasteriser to the rectangle's size and
// moves to the mapped start; ClosePathEndPath closes and draws exactly once
// over the target rectangle.
func H_StartAndEnd() {
	var z render.Renderer
	var ras rec.Raster
	g := setup(&z, &ras)
	s := z.VPGet()
	s.CReg[0].A = 0xff // opaque black in CREG[0], CSEL = 0, LOD = [0, +Inf)
	s.LOD0, s.LOD1 = 0, float32(1<<24)
	z.VPSet(&s)
	x, y := vp.F32("x"), vp.F32("y")
	z.StartPath(0, x, y)
	g.StartPath(x, y)
	vp.Reach("started")
	vp.Assert(sameRLog(ras.Log, g.Out), "StartPath: Reset(width, height) then MoveTo(mapped start)")
	vp.Assert(z.VPGet().PrevSmoothType == 0, "StartPath clears the smooth-curve memory")
	n := len(ras.Log)
	z.ClosePathEndPath()
	vp.Assert(len(ras.Log) == n+2, "ClosePathEndPath issues ClosePath and Draw")
	if len(ras.Log) == n+2 {
		d := ras.Log[n+1]
		vp.Assert(vp.All(ras.Log[n].Op == rec.ROpClosePath, d.Op == rec.ROpDraw, d.R == s.R, d.SP == image.Point{}), "the path is closed, then drawn once over the target rectangle")
	}
}
