package c15

import (
	"image"
	"image/color"
	"math"

	"github.com/reactivego/ivg"
	"github.com/reactivego/ivg/render"

	"vph/rec"
	"vph/vp"
)

var _ = vp.Reg("Clamp", H_Clamp)
var _ = vp.Reg("AtStops", H_AtStops)
var _ = vp.Reg("AtGeometry", H_AtGeometry)
var _ = vp.Reg("Matrix", H_Matrix)
var _ = vp.Reg("Interpolation", H_Interpolation)

// H_Clamp (bit exact, float64, |x| < 2^31): the four spread modes.
func H_Clamp() {
	x := vp.F64("x")
	vp.Assume(vp.And(x > -2147483648, x < 2147483648))
	s := render.Spread(vp.Choice("spread", 4))
	got := s.Clamp(x)
	in := vp.And(x >= 0, x <= 1)
	vp.Reach("clamped")
	vp.Assert(vp.Implies(in, got == x), "offsets inside [0,1] are unchanged")
	switch s {
	case render.SpreadNone:
		vp.Assert(vp.Implies(!in, got == -1), "none: outside [0,1] is reported as -1 (transparent)")
	case render.SpreadPad:
		vp.Assert(vp.And(vp.Implies(x < 0, got == 0), vp.Implies(x > 1, got == 1)), "pad: clamps to the end offsets")
	case render.SpreadRepeat:
		vp.Assert(vp.Implies(!in, got == x-math.Floor(x)), "repeat: the fractional part")
	case render.SpreadReflect:
		// triangle wave of period 2 of t = |x|: with k = floor(t), f = t - k the
		// value is f on even periods and 1 - f on odd ones (all exact in float64).
		// Stated separately for positive and negative x.
		k := math.Floor(x)
		f := x - k
		want := vp.IteF64(int64(k)&1 == 0, f, 1-f)
		vp.Assert(vp.Implies(x > 1, got == want), "reflect: triangle wave of period 2 (x > 1)")
		y := -x
		ky := math.Floor(y)
		fy := y - ky
		wanty := vp.IteF64(int64(ky)&1 == 0, fy, 1-fy)
		vp.Assert(vp.Implies(x < 0, got == wanty), "reflect: triangle wave of period 2 (x < 0)")
	}
	vp.Assert(vp.Or(got == -1, vp.And(got >= 0, got <= 1)), "the clamped offset lies in [0,1] (or is -1)")
}

func symStops(n int) []render.Stop {
	stops := make([]render.Stop, n)
	prev := float32(-1)
	for i := range stops {
		var o float32
		if vp.Param("symoff", 1) != 0 {
			o = vp.F32("off")
		} else {
			o = float32(1+2*i) / float32(2*n) // concrete offsets 1/2n, 3/2n, ...
		}
		vp.Assume(vp.All(o >= 0, o <= 1, o > prev))
		prev = o
		r, g, b, a := vp.U8("r"), vp.U8("g"), vp.U8("b"), vp.U8("a")
		vp.Assume(vp.All(r <= a, g <= a, b <= a))
		stops[i] = render.Stop{Offset: float64(o), RGBA64: color.RGBA64{uint16(r) * 0x101, uint16(g) * 0x101, uint16(b) * 0x101, uint16(a) * 0x101}}
	}
	return stops
}

// constAt evaluates the gradient's colour at offset o (before clamping) by
// using a linear gradient whose matrix maps every pixel to o (0*px + 0*py + o
// is exactly o).
func constAt(spread render.Spread, stops []render.Stop, o float64) color.RGBA64 {
	var g render.Gradient
	g.Init(render.ShapeLinear, spread, render.Aff3{0, 0, o, 0, 0, 0}, stops)
	return g.At(3, 4).(color.RGBA64)
}

// refAt is the specification of the colour at (unclamped) offset o: spread
// handling (Clamp is decided separately by H_Clamp), end colours outside the
// stops, piece-wise linear interpolation in premultiplied space between them.
func refAt(spread render.Spread, stops []render.Stop, o float64) color.RGBA64 {
	if len(stops) < 2 {
		return color.RGBA64{}
	}
	off := spread.Clamp(o)
	if !(off >= 0) {
		return color.RGBA64{}
	}
	if off < stops[0].Offset {
		return stops[0].RGBA64
	}
	for i := 0; i+1 < len(stops); i++ {
		s0, s1 := stops[i], stops[i+1]
		if s0.Offset <= off && off <= s1.Offset {
			t := (off - s0.Offset) / (s1.Offset - s0.Offset)
			s := 1 - t
			return color.RGBA64{
				uint16(s*float64(s0.RGBA64.R) + t*float64(s1.RGBA64.R)),
				uint16(s*float64(s0.RGBA64.G) + t*float64(s1.RGBA64.G)),
				uint16(s*float64(s0.RGBA64.B) + t*float64(s1.RGBA64.B)),
				uint16(s*float64(s0.RGBA64.A) + t*float64(s1.RGBA64.A)),
			}
		}
	}
	return stops[len(stops)-1].RGBA64
}

// H_AtStops (bit exact): colour as a function of the offset.
func H_AtStops() {
	n := 2 + vp.Choice("n", vp.Param("N", 2))
	stops := symStops(n)
	spread := render.Spread(1 + vp.Choice("spread", 3)) // pad, reflect, repeat behave alike inside [0,1]
	which := vp.Choice("where", 4)
	switch which {
	case 0: // exactly at stop i
		i := vp.Choice("i", n)
		got := constAt(spread, stops, stops[i].Offset)
		vp.Reach("at-stop")
		vp.Assert(got == stops[i].RGBA64, "at a stop's offset the colour is that stop's colour")
	case 1: // before the first stop
		o := vp.F64("o")
		vp.Assume(vp.And(o >= 0, o < stops[0].Offset))
		vp.Reach("before")
		vp.Assert(constAt(spread, stops, o) == stops[0].RGBA64, "before the first stop the colour is the first colour")
	case 2: // after the last stop
		o := vp.F64("o")
		vp.Assume(vp.And(o <= 1, o > stops[n-1].Offset))
		vp.Reach("after")
		vp.Assert(constAt(spread, stops, o) == stops[n-1].RGBA64, "after the last stop the colour is the last colour")
	case 3: // spread none outside [0,1] and a gradient without stops
		o := vp.F64("o")
		vp.Assume(vp.Or(o < 0, o > 1))
		vp.Reach("outside")
		vp.Assert(constAt(render.SpreadNone, stops, o) == color.RGBA64{}, "none: outside [0,1] is transparent black")
		vp.Assert(constAt(spread, nil, o) == color.RGBA64{}, "a gradient without ranges is transparent")
	}
}

// H_AtGeometry (bit exact, relational): the colour at pixel (x,y) is the
// colour at the offset obtained from the pixel centre through the matrix:
// a(x+1/2) + b(y+1/2) + c for linear, the distance from the origin for radial.
func H_AtGeometry() {
	stops := symStops(2)
	spread := render.Spread(vp.Choice("spread", 4))
	m := render.Aff3{vp.F64("a"), vp.F64("b"), vp.F64("c"), vp.F64("d"), vp.F64("e"), vp.F64("f")}
	x, y := int(vp.I32("x")), int(vp.I32("y"))
	px, py := float64(x)+0.5, float64(y)+0.5
	var g render.Gradient
	var o float64
	if vp.Choice("shape", 2) == 0 {
		g.Init(render.ShapeLinear, spread, m, stops)
		o = m[0]*px + m[1]*py + m[2]
	} else {
		g.Init(render.ShapeRadial, spread, m, stops)
		gx := m[0]*px + m[1]*py + m[2]
		gy := m[3]*px + m[4]*py + m[5]
		o = math.Sqrt(gx*gx + gy*gy)
	}
	got := g.At(x, y).(color.RGBA64)
	want := refAt(spread, stops, o)
	vp.Reach("evaluated")
	vp.Assert(got == want, "the colour at a pixel is the colour at the offset of its centre under the matrix")
}

// H_Matrix (exact-real reading): the pixel-to-gradient matrix built when a
// gradient path starts is the register matrix composed with the inverse of
// the viewBox-to-pixel map: for every pixel-space point (X,Y),
// M_pix(X,Y) = M_reg(X/sx + minX, Y/sy + minY).
func H_Matrix() {
	var z render.Renderer
	var ras rec.Raster
	w, h := 48, 20 // a non-square raster (sizes are concrete in the exact-real reading)
	var s render.VPState
	s.ViewBox = ivg.ViewBox{MinX: vp.F32("minx"), MinY: vp.F32("miny"), MaxX: vp.F32("maxx"), MaxY: vp.F32("maxy")}
	vp.Assume(vp.And(s.ViewBox.MaxX > s.ViewBox.MinX, s.ViewBox.MaxY > s.ViewBox.MinY))
	s.R = image.Rect(0, 0, w, h)
	s.LOD1 = 1000
	// gradient value in CREG[0]: 2 stops, CBASE = 10, NBASE = 10, linear or radial, pad
	shape := uint8(vp.Choice("shape", 2))
	s.CReg[0] = ivg.EncodeGradient(10, 10, shape, 1, 2)
	s.CReg[10] = color.RGBA{0, 0, 0, 0xff}
	s.CReg[11] = color.RGBA{0xff, 0xff, 0xff, 0xff}
	s.NReg[10], s.NReg[11] = 0, 1
	a, b, c, d, e, f := vp.F32("a"), vp.F32("b"), vp.F32("c"), vp.F32("d"), vp.F32("e"), vp.F32("f")
	s.NReg[4], s.NReg[5], s.NReg[6], s.NReg[7], s.NReg[8], s.NReg[9] = a, b, c, d, e, f
	if vp.Choice("prior", 2) == 1 {
		// the same gradient was painted before on a raster of another size and the
		// Renderer was then pointed at this one (no Reset in between): the matrix
		// must be the one of the current raster
		s0 := s
		s0.R = image.Rect(0, 0, 16, 16)
		z.SetRasterizer(&ras, s0.R)
		z.VPSet(&s0)
		z.StartPath(0, 0, 0)
		z.AbsLineTo(1, 1)
		z.ClosePathEndPath()
		z.SetRasterizer(&ras, s.R)
	} else {
		z.SetRasterizer(&ras, s.R)
		z.VPSet(&s)
	}
	z.StartPath(0, 0, 0)
	kind, _, g := z.VPFill()
	vp.Assert(kind == 2, "the paint is a gradient")
	if kind != 2 {
		return
	}
	ga, gb, gc, gd, ge, gf := g.Transform()
	X, Y := vp.F64("X"), vp.F64("Y")
	vp.Reach("matrix")
	vp.ExactBegin()
	sx := float64(float32(w)) / float64(s.ViewBox.MaxX-s.ViewBox.MinX)
	sy := float64(float32(h)) / float64(s.ViewBox.MaxY-s.ViewBox.MinY)
	px, py := X/sx+float64(s.ViewBox.MinX), Y/sy+float64(s.ViewBox.MinY)
	vp.Assert(ga*X+gb*Y+gc == float64(a)*px+float64(b)*py+float64(c), "first row: gradient x of a pixel = a*px + b*py + c at the corresponding viewBox point")
	vp.Assert(gd*X+ge*Y+gf == float64(d)*px+float64(e)*py+float64(f), "second row: gradient y likewise")
	vp.ExactEnd()
}

// H_Interpolation (exact-real reading): between two stops every channel is
// the linear interpolation (1-t)*c0 + t*c1, hence between the two stop
// values and premultiplied whenever the stops are (before truncation).
func H_Interpolation() {
	o0, o1, o := vp.F64("o0"), vp.F64("o1"), vp.F64("o")
	vp.Assume(vp.All(o0 >= 0, o1 <= 1, o0 < o1, o >= o0, o <= o1))
	c0, a0, c1, a1 := vp.F64("c0"), vp.F64("a0"), vp.F64("c1"), vp.F64("a1")
	vp.Assume(vp.All(c0 >= 0, c0 <= a0, a0 <= 65535, c1 >= 0, c1 <= a1, a1 <= 65535))
	r := render.Range{Offset0: o0, Offset1: o1, Width: o1 - o0, R0: c0, R1: c1, A0: a0, A1: a1}
	// the implementation's formula (render.Gradient.At), on this range
	t := (o - r.Offset0) / r.Width
	s := 1 - t
	cr, ca := s*r.R0+t*r.R1, s*r.A0+t*r.A1
	vp.Reach("interpolated")
	vp.Assert(vp.And(t >= 0, t <= 1), "interpolation parameter lies in [0,1]")
	vp.Assert(cr <= ca, "interpolating premultiplied colours gives a premultiplied colour (before truncation)")
	vp.Assert(vp.And(cr >= 0, ca <= 65535), "channels stay within the 16-bit range")
}
