package mdicons

// Injected by overlay (never written into /repo).

import "golang.org/x/image/math/f32"

func VPNormalize(args *[6]float32, n int, op byte, size float32, offset f32.Vec2, outSize float32, relative bool) {
	normalize(args, n, op, size, offset, outSize, relative)
}
