package generate

// Injected by overlay (never written into /repo).

func VPNormalize(args *[7]float32, n int, verb byte, transforms ...Aff3) {
	normalize(args, n, verb, transforms...)
}

func VPScan(args *[7]float32, d string, n int) (string, error) { return scan(args, d, n) }
