package decode

// Injected by overlay (never written into /repo): exported windows onto the
// unexported decoder pieces, for the verification harnesses.
// (number and colour decoders: loaded only by the properties that name the tag "codec")

import "github.com/reactivego/ivg"

func VPDecodeNatural(b []byte) (uint32, int)     { return buffer(b).decodeNatural() }
func VPDecodeReal(b []byte) (float32, int)       { return buffer(b).decodeReal() }
func VPDecodeCoordinate(b []byte) (float32, int) { return buffer(b).decodeCoordinate() }
func VPDecodeZeroToOne(b []byte) (float32, int)  { return buffer(b).decodeZeroToOne() }

func VPDecodeColor1(b []byte) (ivg.Color, int)         { return buffer(b).decodeColor1() }
func VPDecodeColor2(b []byte) (ivg.Color, int)         { return buffer(b).decodeColor2() }
func VPDecodeColor3Direct(b []byte) (ivg.Color, int)   { return buffer(b).decodeColor3Direct() }
func VPDecodeColor4(b []byte) (ivg.Color, int)         { return buffer(b).decodeColor4() }
func VPDecodeColor3Indirect(b []byte) (ivg.Color, int) { return buffer(b).decodeColor3Indirect() }

