package decode

// Injected by overlay (never written into /repo): exported windows onto the
// unexported decoder pieces, for the verification harnesses.

import "github.com/reactivego/ivg"

func VPDecodeNatural(b []byte) (uint32, int)     { return buffer(b).decodeNatural() }
func VPDecodeReal(b []byte) (float32, int)       { return buffer(b).decodeReal() }
func VPDecodeCoordinate(b []byte) (float32, int) { return buffer(b).decodeCoordinate() }
func VPDecodeZeroToOne(b []byte) (float32, int)  { return buffer(b).decodeZeroToOne() }

func VPDecodeColor1(b []byte) (ivg.Color, int)         { return buffer(b).decodeColor1() }
func VPDecodeColor2(b []byte) (ivg.Color, int)         { return buffer(b).decodeColor2() }
func VPDecodeColor3Direct(b []byte) (ivg.Color, int)   { return buffer(b).decodeColor3Direct() }
func VPDecodeColor4(b []byte) (ivg.Color, int)         { return buffer(b).decodeColor4() }
func VPDecodeColor3Indirect(b []byte) (ivg.Color, int) { return buffer(b).decodeColor3Indirect() }

// VPPrinter is the printer callback type.
type VPPrinter = func(b []byte, format string, args ...interface{})

// VPStyling / VPDrawing run one mode-function step. mode: 0 = styling next,
// 1 = drawing next, -1 = error.
func VPStyling(dst ivg.Destination, p VPPrinter, src []byte) (mode int, rest []byte, err error) {
	mf, r, err := decodeStyling(dst, p, src)
	return vpMode(mf, err), r, err
}

func VPDrawing(dst ivg.Destination, p VPPrinter, src []byte) (mode int, rest []byte, err error) {
	mf, r, err := decodeDrawing(dst, p, src)
	return vpMode(mf, err), r, err
}

func vpMode(mf modeFunc, err error) int {
	if err != nil || mf == nil {
		return -1
	}
	var coords [1]byte
	coords[0] = 0xe1
	// distinguish the two mode functions by behaviour on a one-byte probe:
	// 0xe1 is "end path" in drawing mode and unsupported in styling mode.
	if _, _, e := mf(nil, nil, coords[:]); e != nil {
		return 0
	}
	return 1
}

// VPDecode is decode() with a caller supplied printer and metadata.
func VPDecode(dst ivg.Destination, p VPPrinter, m *ivg.Metadata, metadataOnly bool, src []byte, opts ...DecodeOption) error {
	return decode(dst, p, m, metadataOnly, src, opts...)
}

func VPMetadataChunk(p VPPrinter, m *ivg.Metadata, src []byte) ([]byte, error) {
	r, err := decodeMetadataChunk(p, m, src)
	return r, err
}
