package decode

// Injected by overlay (never written into /repo): exported windows onto the
// unexported decoder pieces, for the verification harnesses.

import "github.com/reactivego/ivg"

// VPPrinter is the printer callback type.
type VPPrinter = func(b []byte, format string, args ...interface{})

// VPDecode is decode() with a caller supplied printer and metadata.
func VPDecode(dst ivg.Destination, p VPPrinter, m *ivg.Metadata, metadataOnly bool, src []byte, opts ...DecodeOption) error {
	return decode(dst, p, m, metadataOnly, src, opts...)
}

