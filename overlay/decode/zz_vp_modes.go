package decode

// Injected by overlay (never written into /repo): exported windows onto the
// unexported decoder pieces, for the verification harnesses.
// (one mode-function step: loaded only by the properties that name the tag "modes")

import "github.com/reactivego/ivg"

// VPStyling / VPDrawing run one mode-function step. mode: 0 = styling next,
// 1 = drawing next, -1 = error.
func VPStyling(dst ivg.Destination, p VPPrinter, src []byte) (mode int, rest []byte, err error) {
	mf, r, err := decodeStyling(dst, p, src)
	return vpMode(mf, err), r, err
}

func VPDrawing(dst ivg.Destination, p VPPrinter, src []byte) (mode int, rest []byte, err error) {
	mf, r, err := decodeDrawing(dst, p, src)
	return vpMode(mf, err), r, err
}

func vpMode(mf modeFunc, err error) int {
	if err != nil || mf == nil {
		return -1
	}
	var coords [1]byte
	coords[0] = 0xe1
	// distinguish the two mode functions by behaviour on a one-byte probe:
	// 0xe1 is "end path" in drawing mode and unsupported in styling mode.
	if _, _, e := mf(nil, nil, coords[:]); e != nil {
		return 0
	}
	return 1
}

