package render

// Injected by overlay (never written into /repo): construction and
// observation of arbitrary Renderer states for one-step harnesses.

import (
	"image"
	"image/color"

	"github.com/reactivego/ivg"
)

type VPState struct {
	CSel, NSel       uint8
	LOD0, LOD1       float32
	CReg             [64]color.RGBA
	NReg             [64]float32
	Palette          [64]color.RGBA
	Disabled         bool
	PrevSmoothType   uint8
	PrevSmoothPointX float32
	PrevSmoothPointY float32
	ViewBox          ivg.ViewBox
	R                image.Rectangle
	// StaleRanges > 0 leaves that many ranges of an earlier gradient paint in the
	// Renderer's gradient (per-path state that only StartPath defines).
	StaleRanges int
}

// VPSet overwrites the register-machine part of the state (the rasterizer
// binding is left alone) and recomputes the viewBox transform as Reset and
// SetRasterizer do.
func (z *Renderer) VPSet(s *VPState) {
	z.cSel, z.nSel = s.CSel, s.NSel
	z.lod0, z.lod1 = s.LOD0, s.LOD1
	z.cReg, z.nReg, z.palette = s.CReg, s.NReg, s.Palette
	z.disabled = s.Disabled
	z.prevSmoothType = s.PrevSmoothType
	z.prevSmoothPointX, z.prevSmoothPointY = s.PrevSmoothPointX, s.PrevSmoothPointY
	z.viewBox = s.ViewBox
	z.r = s.R
	z.recalcTransform()
	if s.StaleRanges > 0 {
		z.gradient.Ranges = make([]Range, s.StaleRanges)
		for i := range z.gradient.Ranges {
			z.gradient.Ranges[i] = Range{Offset0: 0, Offset1: 1, Width: 1, R1: 65535, A0: 65535, A1: 65535}
		}
		z.gradient.First.A, z.gradient.Last.A = 65535, 65535
		z.fill = &z.gradient
	}
}

func (z *Renderer) VPGet() VPState {
	return VPState{
		CSel: z.cSel, NSel: z.nSel, LOD0: z.lod0, LOD1: z.lod1, CReg: z.cReg, NReg: z.nReg, Palette: z.palette,
		Disabled: z.disabled, PrevSmoothType: z.prevSmoothType,
		PrevSmoothPointX: z.prevSmoothPointX, PrevSmoothPointY: z.prevSmoothPointY, ViewBox: z.viewBox, R: z.r,
	}
}

// VPFill reports the paint chosen by StartPath: kind 0 = none yet, 1 = flat, 2 = gradient.
func (z *Renderer) VPFill() (kind int, flat color.RGBA, g *Gradient) {
	switch z.fill {
	case nil:
		return 0, color.RGBA{}, nil
	case image.Image(&z.flatImage):
		return 1, z.flatColor, nil
	}
	return 2, color.RGBA{}, &z.gradient
}

func (z *Renderer) VPScale() (sx, bx, sy, by float32) { return z.scaleX, z.biasX, z.scaleY, z.biasY }
