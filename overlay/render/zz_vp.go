package render

// Injected by overlay (never written into /repo).
