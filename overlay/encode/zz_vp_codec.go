package encode

// Injected by overlay (never written into /repo): number encoders, loaded only by the
// properties that name the tag "codec".

func VPEncodeNatural(u uint32) []byte {
	var b buffer
	b.encodeNatural(u)
	return b
}
func VPEncodeReal(f float32) ([]byte, int) {
	var b buffer
	n := b.encodeReal(f)
	return b, n
}
func VPEncodeCoordinate(f float32) ([]byte, int) {
	var b buffer
	n := b.encodeCoordinate(f)
	return b, n
}
func VPEncodeZeroToOne(f float32) ([]byte, int) {
	var b buffer
	n := b.encodeZeroToOne(f)
	return b, n
}
func VPEncodeAngle(f float32) ([]byte, int) {
	var b buffer
	n := b.encodeAngle(f)
	return b, n
}
func VPQuantize(hires bool, f float32) float32 {
	e := &Encoder{highResolutionCoordinates: hires}
	return e.quantize(f)
}

