package encode

// Injected by overlay (never written into /repo).

// VPEnc is the complete private state of an Encoder (for one-step harnesses
// that start from an arbitrary state).
type VPEnc struct {
	Mode     uint8
	Err      error
	DrawOp   byte
	DrawArgs []float32
	CSel     uint8
	NSel     uint8
	LOD0     float32
	LOD1     float32
	HiRes    bool // exported field
	HiResCur bool // private copy taken at StartPath
	Buf      []byte
	AltBuf   []byte
}

func (e *Encoder) VPSet(s *VPEnc) {
	e.mode = mode(s.Mode)
	e.err = s.Err
	e.drawOp = s.DrawOp
	e.drawArgs = s.DrawArgs
	e.cSel, e.nSel = s.CSel, s.NSel
	e.lod0, e.lod1 = s.LOD0, s.LOD1
	e.HighResolutionCoordinates = s.HiRes
	e.highResolutionCoordinates = s.HiResCur
	e.buf = s.Buf
	e.altBuf = s.AltBuf
}

func (e *Encoder) VPGet() VPEnc {
	return VPEnc{Mode: uint8(e.mode), Err: e.err, DrawOp: e.drawOp, DrawArgs: e.drawArgs, CSel: e.cSel, NSel: e.nSel,
		LOD0: e.lod0, LOD1: e.lod1, HiRes: e.HighResolutionCoordinates, HiResCur: e.highResolutionCoordinates,
		Buf: e.buf, AltBuf: e.altBuf}
}

// VPErr returns one of the four protocol errors.
func VPErr(i int) error {
	switch i {
	case 0:
		return errDrawingOpsUsedInStylingMode
	case 1:
		return errInvalidSelectorAdjustment
	case 2:
		return errInvalidIncrementingAdjustment
	}
	return errStylingOpsUsedInDrawingMode
}
