"""Intercepts for the harness API (vph/vp) and models/stubs for functions that
are not executed from their SSA (math, fmt, bytes.Buffer, strconv ...)."""
import math

import z3

import fpops
from fpops import FV, EngineError, CTX
from values import Ptr, Slice, Str, Iface, Func, MapRef, Tup, Agg, b_not, b_and, b_or, b_term, bv
from symex import intercept, PathEnd, ForkReq, ForkList, Obligation, STUBS, TailCall


def stub(name):
    """model of a function outside the harness API: listed in evidence when used."""
    def deco(f):
        STUBS[name] = f
        return intercept(name)(f)
    return deco


class _U8T:
    bits = 8
    k = 'basic'


_U8 = _U8T()


def _key(st, name):
    n = st.counts.get(name, 0)
    st.counts[name] = n + 1
    return name if n == 0 else '%s#%d' % (name, n)


def _name(arg):
    if not isinstance(arg, Str) or not arg.concrete():
        raise EngineError('vp name must be a constant string')
    return arg.py()


def _nondet_int(bits, signed=False):
    def f(ex, st, fr, ins, args):
        k = _key(st, _name(args[0]))
        if k in ex.presets:
            return ex.presets[k]
        v = z3.BitVec(k, bits)
        st.nondet[k] = ('int', bits, v)
        return v
    return f


intercept('vph/vp.U8')(_nondet_int(8))
intercept('vph/vp.U16')(_nondet_int(16))
intercept('vph/vp.U32')(_nondet_int(32))
intercept('vph/vp.U64')(_nondet_int(64))
intercept('vph/vp.I32')(_nondet_int(32, True))
intercept('vph/vp.I64')(_nondet_int(64, True))
intercept('vph/vp.Int')(_nondet_int(64, True))


@intercept('vph/vp.Bool')
def vp_bool(ex, st, fr, ins, args):
    k = _key(st, _name(args[0]))
    v = z3.BitVec(k, 8)
    st.nondet[k] = ('int', 8, v)
    return v != 0


def _nondet_float(w):
    def f(ex, st, fr, ins, args):
        k = _key(st, _name(args[0]))
        if CTX.mode == 'B':
            b = z3.BitVec(k, w)
            st.nondet[k] = ('fbits', w, b)
            return FV(w, z3.fpBVToFP(b, fpops.sort_of(w)), b)
        r = z3.Real(k)
        st.nondet[k] = ('real', w, r)
        return FV(w, r)
    return f


intercept('vph/vp.F32')(_nondet_float(32))
intercept('vph/vp.F64')(_nondet_float(64))


@intercept('vph/vp.Bytes')
def vp_bytes(ex, st, fr, ins, args):
    name = _name(args[0])
    n = ex.cint(st, args[1], 'Bytes length')
    slots = []
    for i in range(n):
        k = _key(st, '%s[%d]' % (name, i))
        if k in ex.presets:
            slots.append(ex.presets[k])
            continue
        v = z3.BitVec(k, 8)
        st.nondet[k] = ('int', 8, v)
        slots.append(v)
    oid = ex.new_obj(st, slots, 'vp.Bytes ' + name, [_U8])
    return Slice(oid, 0, n, n, 1)


@intercept('vph/vp.Choice')
def vp_choice(ex, st, fr, ins, args):
    n = ex.cint(st, args[1], 'Choice n')
    base = _name(args[0])
    k = _key(st, base)
    if k in ex.presets:
        v = ex.presets[k]
        st.choices[k] = v
        return v
    outs = ForkList()
    for v in range(n):
        s2 = st if v == n - 1 else st.fork()
        s2.choices[k] = v
        outs.append((s2, v))
    ex.res.forks += n - 1
    return outs


@intercept('vph/vp.Param')
def vp_param(ex, st, fr, ins, args):
    name = _name(args[0])
    ex.res.params_used = getattr(ex.res, 'params_used', {})
    v = ex.params.get(name, args[1])
    ex.res.params_used[name] = v
    return v


@intercept('vph/vp.Assume')
def vp_assume(ex, st, fr, ins, args):
    c = ex.simp(args[0])
    if c is True:
        return None
    if c is False:
        raise PathEnd('assume-false')
    r = ex.sat(st, c, want_model=True)
    if r == 'unsat':
        raise PathEnd('assume-false')
    ex.add_pc(st, c)
    if r == 'sat' and st.model is None:
        st.model = ex._last_model
    return None


@intercept('vph/vp.AssumeEq')
def vp_assume_eq(ex, st, fr, ins, args):
    a, b = args[0], args[1]
    if fpops.is_conc(a) and fpops.is_conc(b):
        if abs(a.v - b.v) <= args[2].v * (1 + abs(b.v)):
            return None
        raise PathEnd('assume-false')
    if not (fpops.is_real(a) or fpops.is_real(b)):
        raise EngineError('vp.AssumeEq is for the exact-real reading')
    c = fpops.fcmp('==', a, b)
    ex.res.assumptions.add('lemma assumed by the harness (vp.AssumeEq): see the harness comment')
    return vp_assume(ex, st, fr, ins, [c])


@intercept('vph/vp.Assert')
def vp_assert(ex, st, fr, ins, args):
    c = args[0]
    label = _name(args[1])
    cs = ex.simp(c)
    if cs is True:
        ex.res.folded += 1
        return None
    if cs is False:
        ex.add_obligation(st, label, None, line=ins.get('line'))
        raise PathEnd('assert-false')
    ex.add_obligation(st, label, z3.Not(c), line=ins.get('line'))
    # continue under the assertion (no feasibility check: an infeasible
    # continuation only produces vacuous obligations)
    ex.add_pc(st, cs)
    return None


@intercept('vph/vp.Reach')
def vp_reach(ex, st, fr, ins, args):
    label = _name(args[0])
    ex.res.labels.add(label)
    st.labels.append(label)
    if label == 'inputs' and getattr(ex, 'entry', None) is None:
        # the harness inputs and their assumptions, before the code under test runs
        # (used by the driver to draw path-independent witnesses for the native oracle)
        ex.entry = (list(st.pc), dict(st.nondet), dict(st.choices))
    if not ex.res.reached.get(label):
        r = ex.sat(st, None)
        if r == 'sat':
            ex.res.reached[label] = True
        else:
            ex.res.reached.setdefault(label, False)
    return None


@intercept('vph/vp.ReadOnly')
def vp_readonly(ex, st, fr, ins, args):
    s = args[0]
    if s.obj is not None:
        st.ro[s.obj] = 'input bytes'
    return None


@intercept('vph/vp.ExpectPanic')
def vp_expectpanic(ex, st, fr, ins, args):
    st.expect_panic = True
    return None


@intercept('vph/vp.Reg')
def vp_reg(ex, st, fr, ins, args):
    return True


@intercept('vph/vp.All')
def vp_all(ex, st, fr, ins, args):
    s = args[0]
    return b_and(*ex.slice_elems(st, s))


@intercept('vph/vp.Any')
def vp_any(ex, st, fr, ins, args):
    s = args[0]
    return b_or(*ex.slice_elems(st, s))


@intercept('vph/vp.Implies')
def vp_implies(ex, st, fr, ins, args):
    return b_or(b_not(args[0]), args[1])


@intercept('vph/vp.And')
def vp_and(ex, st, fr, ins, args):
    return b_and(args[0], args[1])


@intercept('vph/vp.Or')
def vp_or(ex, st, fr, ins, args):
    return b_or(args[0], args[1])


def _ite_int(bits):
    def f(ex, st, fr, ins, args):
        c, a, b = args
        if isinstance(c, bool):
            return a if c else b
        return z3.If(c, bv(a, bits), bv(b, bits))
    return f


intercept('vph/vp.IteU8')(_ite_int(8))
intercept('vph/vp.IteU32')(_ite_int(32))
intercept('vph/vp.IteInt')(_ite_int(64))


@intercept('vph/vp.IteF64')
def vp_itef64(ex, st, fr, ins, args):
    c, a, b = args
    return ex.ite(c, a, b)


@intercept('vph/vp.IteF32')
def vp_itef32(ex, st, fr, ins, args):
    c, a, b = args
    return ex.ite(c, a, b)


@intercept('vph/vp.SameF32')
def vp_samef32(ex, st, fr, ins, args):
    return fpops.feq_bits(args[0], args[1])


@intercept('vph/vp.SameF64')
def vp_samef64(ex, st, fr, ins, args):
    return fpops.feq_bits(args[0], args[1])


@intercept('vph/vp.NearF32')
def vp_nearf32(ex, st, fr, ins, args):
    a, b, rel, ab = args
    same = fpops.feq_bits(a, b)
    if same is True:
        return True
    if CTX.mode == 'B':
        # bit-exact reading: equal values, both NaN, or |a-b| <= abs + rel*max(|a|,|b|) in float64
        x, y = fpops.fconv(a, 64), fpops.fconv(b, 64)
        d = fpops.fabs(fpops.fbin('-', x, y))
        ax, ay = fpops.fabs(x), fpops.fabs(y)
        m = ex.ite(fpops.fcmp('>=', ax, ay), ax, ay)
        bound = fpops.fbin('+', ab, fpops.fbin('*', rel, m))
        return b_or(same, fpops.fcmp('==', a, b), fpops.fcmp('<=', d, bound))
    x, y = a.v, b.v
    if isinstance(x, float):
        x = fpops.realval(x)
    if isinstance(y, float):
        y = fpops.realval(y)
    d = z3.If(x >= y, x - y, y - x)
    ax = z3.If(x >= 0, x, -x)
    ay = z3.If(y >= 0, y, -y)
    m = z3.If(ax >= ay, ax, ay)
    return d <= fpops.realval(ab.v) + fpops.realval(rel.v) * m


# ---------------------------------------------------------------------- math

def _f1(fn):
    def f(ex, st, fr, ins, args):
        return fn(args[0])
    return f


stub('math.Floor')(_f1(fpops.ffloor))
stub('math.Ceil')(_f1(fpops.fceil))
stub('math.Trunc')(_f1(fpops.ftrunc))
stub('math.Abs')(_f1(fpops.fabs))
stub('math.Sqrt')(_f1(fpops.fsqrt))
intercept('math.Floor')(_f1(fpops.ffloor))
intercept('math.Ceil')(_f1(fpops.fceil))
intercept('math.Trunc')(_f1(fpops.ftrunc))
intercept('math.Abs')(_f1(fpops.fabs))
intercept('math.Sqrt')(_f1(fpops.fsqrt))


@stub('math.Float32bits')
def m_f32bits(ex, st, fr, ins, args):
    return fpops.fbits(args[0])


@stub('math.Float64bits')
def m_f64bits(ex, st, fr, ins, args):
    return fpops.fbits(args[0])


@stub('math.Float32frombits')
def m_f32frombits(ex, st, fr, ins, args):
    return fpops.ffrombits(32, args[0])


@stub('math.Float64frombits')
def m_f64frombits(ex, st, fr, ins, args):
    return fpops.ffrombits(64, args[0])


intercept('math.Float32bits')(m_f32bits)
intercept('math.Float64bits')(m_f64bits)
intercept('math.Float32frombits')(m_f32frombits)
intercept('math.Float64frombits')(m_f64frombits)


@stub('math.Inf')
def m_inf(ex, st, fr, ins, args):
    s = args[0]
    if not isinstance(s, int):
        raise EngineError('math.Inf(symbolic)')
    return FV(64, math.inf if s >= 0 else -math.inf)


@stub('math.NaN')
def m_nan(ex, st, fr, ins, args):
    return FV(64, math.nan)


@stub('math.IsNaN')
def m_isnan(ex, st, fr, ins, args):
    return fpops.isnan(args[0])


@stub('math.IsInf')
def m_isinf(ex, st, fr, ins, args):
    a, sign = args
    if not isinstance(sign, int):
        raise EngineError('math.IsInf(symbolic sign)')
    if fpops.is_conc(a):
        return (sign >= 0 and a.v == math.inf) or (sign <= 0 and a.v == -math.inf)
    t = a.v
    pos = z3.And(z3.fpIsInf(t), z3.Not(z3.fpIsNegative(t)))
    neg = z3.And(z3.fpIsInf(t), z3.fpIsNegative(t))
    if sign > 0:
        return pos
    if sign < 0:
        return neg
    return z3.fpIsInf(t)


intercept('math.Inf')(m_inf)
intercept('math.NaN')(m_nan)
intercept('math.IsNaN')(m_isnan)
intercept('math.IsInf')(m_isinf)


def _uf(name, w=64):
    """uninterpreted function float64 -> float64 (B reading) or Real -> Real."""
    key = (name, CTX.mode)
    f = CTX.uf.get(key)
    if f is None:
        if CTX.mode == 'B':
            f = z3.Function('uf_' + name, fpops.F64, fpops.F64)
        else:
            f = z3.Function('uf_' + name, z3.RealSort(), z3.RealSort())
        CTX.uf[key] = f
    return f


def _trig(name, lo, hi, contract):
    def f(ex, st, fr, ins, args):
        a = args[0]
        if fpops.is_conc(a):
            # concrete arguments: libm value (agrees with Go's implementation to
            # within an ulp or so; only used by the concrete translator self-test
            # and for special values)
            x = a.v
            try:
                if name == 'sin':
                    return FV(64, math.sin(x))
                if name == 'cos':
                    return FV(64, math.cos(x))
                return FV(64, math.acos(x))
            except (ValueError, OverflowError):
                return FV(64, math.nan)
        uf = _uf(name)
        ex.res.stubs.add('math.%s: uninterpreted function, contract: %s' % (name.capitalize(), contract))
        if fpops.is_real(a):
            # normalise the argument (linear arithmetic, sum of monomials): (d*2)/2 and d are one term
            r = uf(z3.simplify(a.v, som=True))
            CTX.pending.append(z3.And(r >= lo, r <= hi))
            return FV(64, r)
        t = fpops.term(a)
        r = uf(t)
        lo_t, hi_t = fpops.fpval(64, float(lo)), fpops.fpval(64, float(hi))
        CTX.pending.append(z3.Or(z3.fpIsNaN(r), z3.And(z3.fpGEQ(r, lo_t), z3.fpLEQ(r, hi_t))))
        # NaN only for NaN / infinite arguments (sin, cos) or arguments outside [-1,1] (acos)
        if name in ('sin', 'cos'):
            CTX.pending.append(z3.fpIsNaN(r) == z3.Or(z3.fpIsNaN(t), z3.fpIsInf(t)))
        else:
            one = fpops.fpval(64, 1.0)
            CTX.pending.append(z3.fpIsNaN(r) == z3.Not(z3.And(z3.fpGEQ(t, z3.fpNeg(one)), z3.fpLEQ(t, one))))
        return FV(64, r)
    return f


stub('math.Sin')(_trig('sin', -1, 1, 'result in [-1,1], NaN iff argument NaN or infinite'))
stub('math.Cos')(_trig('cos', -1, 1, 'result in [-1,1], NaN iff argument NaN or infinite'))
stub('math.Acos')(_trig('acos', 0, math.pi, 'result in [0,pi], NaN iff argument outside [-1,1] or NaN'))
intercept('math.Sin')(_trig('sin', -1, 1, 'result in [-1,1], NaN iff argument NaN or infinite'))
intercept('math.Cos')(_trig('cos', -1, 1, 'result in [-1,1], NaN iff argument NaN or infinite'))
intercept('math.Acos')(_trig('acos', 0, math.pi, 'result in [0,pi], NaN iff argument outside [-1,1] or NaN'))


# ---------------------------------------------------------------------- fmt & friends

def _record(ex, st, what, args):
    st.events.append((what, args))


@stub('fmt.Printf')
def fmt_printf(ex, st, fr, ins, args):
    return Tup([0, None])


@stub('fmt.Println')
def fmt_println(ex, st, fr, ins, args):
    return Tup([0, None])


@stub('fmt.Fprintf')
def fmt_fprintf(ex, st, fr, ins, args):
    _record(ex, st, 'Fprintf', args[1:])
    w = args[0]
    if isinstance(w, Iface) and w.t.s == '*bytes.Buffer' and isinstance(args[1], Str) and args[1].concrete():
        # the format string verbatim (operand text is not modelled)
        ex.res.stubs.add('fmt.Fprintf into a bytes.Buffer appends the format string verbatim (operand text not modelled)')
        _buf_append(ex, st, w.v, list(args[1].b))
        return Tup([len(args[1].b), None])
    return Tup([0, None])


@stub('fmt.Sprintf')
def fmt_sprintf(ex, st, fr, ins, args):
    # formatting is never the subject: result is an opaque constant string
    _record(ex, st, 'Sprintf', args)
    return Str(b'<sprintf>')


@stub('fmt.Sprint')
def fmt_sprint(ex, st, fr, ins, args):
    return Str(b'<sprint>')


@stub('fmt.Errorf')
def fmt_errorf(ex, st, fr, ins, args):
    t = None
    for ty in ex.prog.types:
        if ty.k == 'named' and ty.name == 'vph/vp.Err':
            t = ty
    if t is None:
        raise EngineError('fmt.Errorf needs vph/vp.Err')
    return Iface(t, Str(b'<errorf>'))


# bytes.Buffer: a model with content (the struct's own buf/off fields hold it, so copies,
# pooled buffers and Reset behave as in the real type, including the aliasing of Bytes()
# with later writes that fit the capacity).  fmt.Fprintf into a Buffer appends the format
# string verbatim: the text fmt makes of the operands is not modelled, line structure is.
def _buf_offs(ex):
    return _field_off(ex, 'bytes.Buffer', 'buf'), _field_off(ex, 'bytes.Buffer', 'off')


def _buf_get(ex, st, p):
    if p is None:
        raise PathEnd('panic', 'nil pointer dereference (bytes.Buffer)')
    bo, oo = _buf_offs(ex)
    slots = st.heap[p.obj]
    cur = slots[p.off + bo]
    off = slots[p.off + oo]
    if not isinstance(off, int):
        raise EngineError('bytes.Buffer with symbolic read offset')
    if not isinstance(cur, Slice):
        cur = Slice(None, 0, 0, 0, 1)
    return cur, off


def _buf_set(ex, st, p, sl, off):
    bo, oo = _buf_offs(ex)
    ex.check_ro(st, p.obj, 'store')
    st.written.add(p.obj)
    w = st.wobj(p.obj)
    w[p.off + bo] = sl
    w[p.off + oo] = off


def _buf_append(ex, st, p, elems):
    cur, off = _buf_get(ex, st, p)
    elems = list(elems)
    n = len(elems)
    ln = ex.cint(st, cur.len)
    cap = ex.cint(st, cur.cap)
    if cur.obj is not None and ln + n <= cap:
        w = st.wobj(cur.obj)
        w[cur.off + ln:cur.off + ln + n] = elems
        _buf_set(ex, st, p, Slice(cur.obj, cur.off, ln + n, cap, 1), off)
        return
    old = ex.slice_elems(st, cur)
    ncap = max(64, 2 * cap + n)
    slots = list(old) + elems + [0] * (ncap - ln - n)
    oid = ex.new_obj(st, slots, 'bytes.Buffer content', [_U8])
    _buf_set(ex, st, p, Slice(oid, 0, ln + n, ncap, 1), off)


@stub('(*bytes.Buffer).Write')
def buf_write(ex, st, fr, ins, args):
    b = args[1]
    elems = ex.slice_elems(st, b)
    _record(ex, st, 'Buffer.Write', [Str(elems)])
    _buf_append(ex, st, args[0], elems)
    return Tup([len(elems), None])


@stub('(*bytes.Buffer).WriteString')
def buf_writestring(ex, st, fr, ins, args):
    elems = list(args[1].b)
    _buf_append(ex, st, args[0], elems)
    return Tup([len(elems), None])


@stub('(*bytes.Buffer).WriteByte')
def buf_writebyte(ex, st, fr, ins, args):
    _buf_append(ex, st, args[0], [args[1]])
    return None


@stub('(*bytes.Buffer).Bytes')
def buf_bytes(ex, st, fr, ins, args):
    cur, off = _buf_get(ex, st, args[0])
    ln = ex.cint(st, cur.len)
    if cur.obj is None:
        return Slice(None, 0, 0, 0, 1)
    return Slice(cur.obj, cur.off + off, ln - off, ex.cint(st, cur.cap) - off, 1)


@stub('(*bytes.Buffer).String')
def buf_string(ex, st, fr, ins, args):
    if args[0] is None:
        return Str(b'<nil>')
    cur, off = _buf_get(ex, st, args[0])
    return Str(ex.slice_elems(st, cur)[off:])


@stub('(*bytes.Buffer).Len')
def buf_len(ex, st, fr, ins, args):
    cur, off = _buf_get(ex, st, args[0])
    return ex.cint(st, cur.len) - off


@stub('(*bytes.Buffer).Reset')
def buf_reset(ex, st, fr, ins, args):
    cur, off = _buf_get(ex, st, args[0])
    _buf_set(ex, st, args[0], Slice(cur.obj, cur.off, 0, cur.cap, 1) if cur.obj is not None else cur, 0)
    return None


@stub('(*bytes.Buffer).Truncate')
def buf_truncate(ex, st, fr, ins, args):
    cur, off = _buf_get(ex, st, args[0])
    n = ex.cint(st, args[1], 'Truncate length')
    if n == 0:
        return buf_reset(ex, st, fr, ins, args)
    if n < 0 or n > ex.cint(st, cur.len) - off:
        raise PathEnd('panic', 'bytes.Buffer: truncation out of range')
    _buf_set(ex, st, args[0], Slice(cur.obj, cur.off, off + n, cur.cap, 1), off)
    return None


@intercept('vph/vp.NoteU64')
def vp_note(ex, st, fr, ins, args):
    st.notes.append((_name(args[0]), args[1]))
    return None


@intercept('vph/vp.AbsF32')
def vp_absf32(ex, st, fr, ins, args):
    return fpops.fabs(args[0])


@intercept('vph/vp.ExactBegin')
def vp_exact_begin(ex, st, fr, ins, args):
    if CTX.mode == 'R':
        CTX.mode = 'Rx'
    return None


@intercept('vph/vp.ExactEnd')
def vp_exact_end(ex, st, fr, ins, args):
    if CTX.mode == 'Rx':
        CTX.mode = 'R'
    return None


@intercept('vph/vp.Check')
def vp_check(ex, st, fr, ins, args):
    c = args[0]
    label = _name(args[1])
    cs = ex.simp(c)
    if cs is True:
        ex.res.folded += 1
        return None
    if cs is False:
        ex.add_obligation(st, label, None, line=ins.get('line'))
        return None
    ex.add_obligation(st, label, z3.Not(c), line=ins.get('line'))
    return None


# ---------------------------------------------------------------------- text -> float

def _classify(ex, st, b):
    """class of a (possibly symbolic) byte: 'd' digit, '.', '+', '-', ' ', ',' or 'o' other.
    A symbolic byte must be forced into one class by the path condition."""
    if isinstance(b, int):
        c = chr(b)
        if c.isdigit():
            return 'd'
        if c in '.+- ,':
            return c
        return 'o'
    isd = z3.And(z3.UGE(b, ord('0')), z3.ULE(b, ord('9')))
    if ex.sat(st, z3.Not(isd)) == 'unsat':
        return 'd'
    for c in '.+- ,':
        if ex.sat(st, b != ord(c)) == 'unsat':
            return c
    if ex.sat(st, isd) == 'unsat':
        return 'o'
    raise EngineError('text scanner: a symbolic byte is not forced into one character class by the harness')


def _token_value(ex, token, w):
    """value of a decimal token: exact for concrete text, an uninterpreted
    function of the bytes otherwise (text -> float parsing is a trusted stub)."""
    if all(isinstance(x, int) for x in token):
        try:
            return FV(64, float(bytes(token).decode())), True
        except ValueError:
            return FV(64, 0.0), False
    n = len(token)
    key = ('parsefloat', n)
    f = CTX.uf.get(key)
    if f is None:
        f = z3.Function('uf_parsefloat_%d' % n, *([z3.BitVecSort(8)] * n + [fpops.F64]))
        CTX.uf[key] = f
    ex.res.stubs.add('strconv.ParseFloat / fmt.Fscanf(%f): uninterpreted function of the token bytes (finite result assumed)')
    r = f(*[bv(x, 8) for x in token])
    CTX.pending.append(z3.Not(z3.Or(z3.fpIsNaN(r), z3.fpIsInf(r))))
    return FV(64, r), True


@stub('strconv.ParseFloat')
def strconv_parsefloat(ex, st, fr, ins, args):
    s, bits = args
    v, ok = _token_value(ex, list(s.b), 64)
    if not ok:
        t = None
        for ty in ex.prog.types:
            if ty.k == 'named' and ty.name == 'vph/vp.Err':
                t = ty
        return Tup([FV(64, 0.0), Iface(t, Str(b'<parse error>'))])
    if isinstance(bits, int) and bits == 32:
        v = fpops.fconv(fpops.fconv(v, 32), 64)
    return Tup([v, None])


def _field_off(ex, tname, fname):
    for ty in ex.prog.types:
        if ty.k == 'named' and ty.name == tname:
            u = ex.U(ty)
            for i, f in enumerate(u.fields):
                if f['name'] == fname:
                    return u.foffs[i]
    raise EngineError('no field %s.%s' % (tname, fname))


@stub('fmt.Fscanf')
def fmt_fscanf(ex, st, fr, ins, args):
    """model of fmt.Fscanf(r, "%f", &f32) on a *strings.Reader: consume the
    maximal [+-]?digits[.digits] token at the read position."""
    rd, fmtstr, rest = args
    if not (isinstance(fmtstr, Str) and fmtstr.concrete() and fmtstr.py() == '%f'):
        raise EngineError('Fscanf model supports "%f" only')
    if not isinstance(rd, Iface) or rd.t.s != '*strings.Reader':
        raise EngineError('Fscanf model needs a *strings.Reader')
    p = rd.v
    so, io_ = _field_off(ex, 'strings.Reader', 's'), _field_off(ex, 'strings.Reader', 'i')
    obj = st.heap[p.obj]
    s, i = obj[p.off + so], obj[p.off + io_]
    if not isinstance(i, int):
        raise EngineError('symbolic read position')
    b = s.b
    j = i
    if j < len(b) and _classify(ex, st, b[j]) in '+-':
        j += 1
    dots = 0
    while j < len(b):
        c = _classify(ex, st, b[j])
        if c == 'd':
            j += 1
        elif c == '.' and dots == 0:
            dots = 1
            j += 1
        else:
            break
    token = list(b[i:j])
    tgt = ex.slice_elems(st, rest)
    if len(tgt) != 1:
        raise EngineError('Fscanf model: one target expected')
    v, ok = _token_value(ex, token, 32) if token else (FV(64, 0.0), False)
    if not ok:
        return Tup([0, Iface([ty for ty in ex.prog.types if ty.k == 'named' and ty.name == 'vph/vp.Err'][0], Str(b'<scan error>'))])
    w = st.wobj(p.obj)
    w[p.off + io_] = j
    ptr = tgt[0].v
    ex.store(st, ptr, fpops.fconv(v, 32))
    ex.res.stubs.add('fmt.Fscanf("%f"): token model [+-]?digits[.digits]')
    return Tup([1, None])


@stub('(*golang.org/x/image/vector.Rasterizer).Draw')
def vector_draw(ex, st, fr, ins, args):
    ex.res.stubs.add('golang.org/x/image/vector.Rasterizer.Draw: no-op (pixels are outside the model)')
    return None


@stub('(*golang.org/x/image/vector.Rasterizer).Reset')
def vector_reset(ex, st, fr, ins, args):
    return None


@stub('math/bits.Mul64')
def bits_mul64(ex, st, fr, ins, args):
    x, y = args
    if isinstance(x, int) and isinstance(y, int):
        p = (x & (2 ** 64 - 1)) * (y & (2 ** 64 - 1))
        return Tup([p >> 64, p & (2 ** 64 - 1)])
    X, Y = z3.ZeroExt(64, bv(x, 64)), z3.ZeroExt(64, bv(y, 64))
    p = X * Y
    return Tup([z3.Extract(127, 64, p), z3.Extract(63, 0, p)])


# ---------------------------------------------------------------------- more of math (bodies are assembly or outside the exported packages)

def _fite(c, a, b):
    """FV-valued if-then-else for a python bool or z3 Bool condition."""
    if isinstance(c, bool):
        return a if c else b
    ta, tb = fpops.term(a), fpops.term(b)
    if fpops.is_real(a) or fpops.is_real(b):
        ta = fpops.realval(a.v) if fpops.is_conc(a) else a.v
        tb = fpops.realval(b.v) if fpops.is_conc(b) else b.v
    return FV(a.w, z3.If(c, ta, tb))


@stub('math.Modf')
def m_modf(ex, st, fr, ins, args):
    x = args[0]
    ip = fpops.ftrunc(x)
    fp = fpops.fbin('-', x, ip)
    # Modf(+-0) = +-0, +-0 (x - trunc(x) would be +0); Modf(+-Inf) = +-Inf, NaN as computed
    fp = _fite(fpops.fcmp('==', x, FV(64, 0.0)), x, fp)
    return Tup([ip, fp])


@stub('math.Round')
def m_round(ex, st, fr, ins, args):
    x = args[0]
    if fpops.is_conc(x):
        v = x.v
        if v != v or v in (math.inf, -math.inf) or v == 0:
            return FV(64, v)
        r = math.floor(abs(v) + 0.5) if abs(v) < 2 ** 52 else abs(v)
        return FV(64, math.copysign(float(r), v))
    if fpops.is_real(x):
        a = z3.If(x.v >= 0, x.v, -x.v)
        r = z3.ToReal(z3.ToInt(a + fpops.realval(0.5)))
        return FV(64, z3.If(x.v >= 0, r, -r))
    return FV(64, z3.fpRoundToIntegral(z3.RNA(), x.v))


@stub('math.RoundToEven')
def m_roundeven(ex, st, fr, ins, args):
    x = args[0]
    if fpops.is_conc(x):
        v = x.v
        if v != v or v in (math.inf, -math.inf) or v == 0:
            return FV(64, v)
        return FV(64, math.copysign(float(round(v)), v))
    if fpops.is_real(x):
        raise EngineError('math.RoundToEven in a real reading')
    return FV(64, z3.fpRoundToIntegral(fpops.RNE, x.v))


def _minmax(is_max):
    def f(ex, st, fr, ins, args):
        x, y = args
        if fpops.is_real(x) or fpops.is_real(y):
            c = fpops.fcmp('>=' if is_max else '<=', x, y)
            return _fite(c, x, y)
        if fpops.is_conc(x) and fpops.is_conc(y):
            a, b = x.v, y.v
            if a != a or b != b:
                inf = math.inf if is_max else -math.inf
                return FV(64, inf if (a == inf or b == inf) else math.nan)
            if a == 0 and b == 0:
                neg = (math.copysign(1, a) < 0, math.copysign(1, b) < 0)
                z = (neg[0] and neg[1]) if is_max else (neg[0] or neg[1])
                return FV(64, -0.0 if z else 0.0)
            return FV(64, max(a, b) if is_max else min(a, b))
        tx, ty = fpops.term(x), fpops.term(y)
        inf = fpops.fpval(64, math.inf if is_max else -math.inf)
        nan = fpops.fpval(64, math.nan)
        r = z3.fpMax(tx, ty) if is_max else z3.fpMin(tx, ty)
        # z3's fpMax/fpMin leave the sign of max(+0,-0) unspecified: spell it out
        bothz = z3.And(z3.fpIsZero(tx), z3.fpIsZero(ty))
        if is_max:
            zz = z3.If(z3.And(z3.fpIsNegative(tx), z3.fpIsNegative(ty)), fpops.fpval(64, -0.0), fpops.fpval(64, 0.0))
        else:
            zz = z3.If(z3.Or(z3.fpIsNegative(tx), z3.fpIsNegative(ty)), fpops.fpval(64, -0.0), fpops.fpval(64, 0.0))
        isinf = z3.Or(z3.fpEQ(tx, inf), z3.fpEQ(ty, inf))
        anynan = z3.Or(z3.fpIsNaN(tx), z3.fpIsNaN(ty))
        return FV(64, z3.If(isinf, inf, z3.If(anynan, nan, z3.If(bothz, zz, r))))
    return f


stub('math.Max')(_minmax(True))
stub('math.Min')(_minmax(False))


@stub('math.Signbit')
def m_signbit(ex, st, fr, ins, args):
    x = args[0]
    if fpops.is_conc(x):
        return math.copysign(1, x.v) < 0
    if fpops.is_real(x):
        return x.v < 0
    return z3.fpIsNegative(x.v)


@stub('math.Copysign')
def m_copysign(ex, st, fr, ins, args):
    x, s = args
    if fpops.is_conc(x) and fpops.is_conc(s):
        return FV(64, math.copysign(x.v, s.v))
    if fpops.is_real(x) or fpops.is_real(s):
        ax = fpops.fabs(x)
        return _fite(fpops.fcmp('<', s, FV(64, 0.0)), fpops.fneg(ax), ax)
    ax = z3.fpAbs(fpops.term(x))
    return FV(64, z3.If(z3.fpIsNegative(fpops.term(s)), z3.fpNeg(ax), ax))


# ---------------------------------------------------------------------- internal/bytealg (assembly)

def _index_byte(elems, c):
    """first index of byte c in elems (python ints / BitVec(8)), -1 if absent."""
    if isinstance(c, int) and all(isinstance(e, int) for e in elems):
        for i, e in enumerate(elems):
            if e == (c & 0xff):
                return i
        return -1
    r = z3.BitVecVal(-1, 64)
    for i in reversed(range(len(elems))):
        r = z3.If(bv(elems[i], 8) == bv(c, 8), z3.BitVecVal(i, 64), r)
    return r


def _count_byte(elems, c):
    if isinstance(c, int) and all(isinstance(e, int) for e in elems):
        return sum(1 for e in elems if e == (c & 0xff))
    r = z3.BitVecVal(0, 64)
    for e in elems:
        r = r + z3.If(bv(e, 8) == bv(c, 8), z3.BitVecVal(1, 64), z3.BitVecVal(0, 64))
    return r


@stub('internal/bytealg.IndexByteString')
def ba_indexbytestring(ex, st, fr, ins, args):
    return _index_byte(list(args[0].b), args[1])


@stub('internal/bytealg.IndexByte')
def ba_indexbyte(ex, st, fr, ins, args):
    return _index_byte(list(ex.slice_elems(st, args[0])), args[1])


@stub('internal/bytealg.CountString')
def ba_countstring(ex, st, fr, ins, args):
    return _count_byte(list(args[0].b), args[1])


@stub('internal/bytealg.Count')
def ba_count(ex, st, fr, ins, args):
    return _count_byte(list(ex.slice_elems(st, args[0])), args[1])


# ---------------------------------------------------------------------- sync, sync/atomic

def _field_off(ex, tname, fname):
    for t in ex.prog.types:
        if t.k == 'named' and t.s == tname:
            u = ex.prog.under(t)
            for i, f in enumerate(u.fields or []):
                if f.get('name') == fname:
                    return u.foffs[i]
    raise EngineError('no field %s in %s' % (fname, tname))


@stub('(*sync/atomic.Value).Load')
def av_load(ex, st, fr, ins, args):
    p = args[0]
    if p is None:
        raise PathEnd('panic', 'nil pointer dereference')
    return st.heap[p.obj][p.off]   # struct{ v any }: one slot


@stub('(*sync/atomic.Value).Store')
def av_store(ex, st, fr, ins, args):
    p, v = args
    if v is None:
        raise PathEnd('panic', 'sync/atomic: store of nil value into Value')
    # a plain store: the executor's frame monitor reports it when the Value is a package-level variable
    ex.store(st, Ptr(p.obj, p.off), v)
    return None


@stub('(*sync.Pool).Get')
def pool_get(ex, st, fr, ins, args):
    # sync.Pool may drop what was Put at any time or hand it back: the model hands back the
    # most recently Put object if there is one (LIFO, one slot), otherwise calls New.  The
    # pooled object is kept in the Pool's own `local` field; the Pool's internals are
    # synchronised by the runtime, so this is not a write the read-only monitor reports.
    p = args[0]
    lo = _field_off(ex, 'sync.Pool', 'local')
    slots = st.heap[p.obj]
    kept = slots[p.off + lo]
    if isinstance(kept, tuple) and len(kept) == 2 and kept[0] == 'pooled':
        w = st.wobj(p.obj)
        w[p.off + lo] = None
        ex.res.stubs.add('sync.Pool: Get returns the most recently Put object (one slot), else New()')
        return kept[1]
    off = _field_off(ex, 'sync.Pool', 'New')
    f = slots[p.off + off]
    if f is None:
        return None
    return TailCall(f.fn, [], f.binds)


@stub('(*sync.Pool).Put')
def pool_put(ex, st, fr, ins, args):
    p, v = args
    if v is None:
        return None
    lo = _field_off(ex, 'sync.Pool', 'local')
    w = st.wobj(p.obj)
    w[p.off + lo] = ('pooled', v)
    return None


for _n in ('(*sync.Mutex).Lock', '(*sync.Mutex).Unlock', '(*sync.RWMutex).Lock', '(*sync.RWMutex).Unlock',
           '(*sync.RWMutex).RLock', '(*sync.RWMutex).RUnlock'):
    # single goroutine: locks are no-ops
    stub(_n)(lambda ex, st, fr, ins, args: None)


@stub('(*sync.Once).Do')
def once_do(ex, st, fr, ins, args):
    p, f = args
    off = 0
    slots = st.heap[p.obj]
    done = slots[p.off + off]
    if isinstance(done, int) and done != 0:
        return None
    if not isinstance(done, int):
        raise EngineError('sync.Once with symbolic state')
    w = st.wobj(p.obj)
    w[p.off + off] = 1
    if f is None:
        raise PathEnd('panic', 'call of nil function')
    return TailCall(f.fn, [], f.binds)
