"""Runtime values of the symbolic executor."""
import z3

from fpops import FV, EngineError, term as fterm, is_conc as f_is_conc


class Ptr:
    __slots__ = ('obj', 'off', 'sym')

    def __init__(self, obj, off=0, sym=None):
        self.obj = obj
        self.off = off
        self.sym = sym  # None or tuple of (index term, stride, count)

    def __repr__(self):
        return 'Ptr(%r,%r%s)' % (self.obj, self.off, ',sym' if self.sym else '')

    def key(self):
        return (self.obj, self.off)


class Slice:
    __slots__ = ('obj', 'off', 'len', 'cap', 'stride')

    def __init__(self, obj, off, ln, cap, stride):
        self.obj = obj
        self.off = off
        self.len = ln
        self.cap = cap
        self.stride = stride

    def __repr__(self):
        return 'Slice(%r,%r,len=%r,cap=%r)' % (self.obj, self.off, self.len, self.cap)


class Str:
    """Go string: immutable sequence of bytes (python ints or BitVec(8) terms)."""
    __slots__ = ('b',)

    def __init__(self, b=()):
        self.b = tuple(b)

    def concrete(self):
        return all(isinstance(x, int) for x in self.b)

    def py(self):
        return bytes(self.b).decode('utf-8', 'replace')

    def __repr__(self):
        if self.concrete():
            return 'Str(%r)' % bytes(self.b)
        return 'Str(<sym %d>)' % len(self.b)


class Iface:
    __slots__ = ('t', 'v')

    def __init__(self, t, v):
        self.t = t
        self.v = v

    def __repr__(self):
        return 'Iface(%s,%r)' % (self.t.s, self.v)


class Func:
    __slots__ = ('fn', 'binds')

    def __init__(self, fn, binds=()):
        self.fn = fn
        self.binds = tuple(binds)

    def __repr__(self):
        return 'Func(%s)' % self.fn


class MapRef:
    __slots__ = ('obj',)

    def __init__(self, obj):
        self.obj = obj


class Tup(list):
    pass


class Agg(tuple):
    """flattened struct/array value (tuple of slot values)."""
    pass


class Poison:
    """value produced by skipped initialisation code; any use is an engine error."""
    def __repr__(self):
        return 'Poison'


POISON = Poison()


def is_sym(v):
    return isinstance(v, z3.ExprRef) or (isinstance(v, FV) and not f_is_conc(v))


def wrap_int(x, bits, unsigned):
    x &= (1 << bits) - 1
    if not unsigned and x >> (bits - 1):
        x -= 1 << bits
    return x


def bv(x, bits):
    """BitVec term for python int or term."""
    if isinstance(x, int):
        return z3.BitVecVal(x, bits)
    return x


def b_not(a):
    if isinstance(a, bool):
        return not a
    return z3.Not(a)


def b_and(*xs):
    out = []
    for x in xs:
        if isinstance(x, bool):
            if not x:
                return False
        else:
            out.append(x)
    if not out:
        return True
    if len(out) == 1:
        return out[0]
    return z3.And(*out)


def b_or(*xs):
    out = []
    for x in xs:
        if isinstance(x, bool):
            if x:
                return True
        else:
            out.append(x)
    if not out:
        return False
    if len(out) == 1:
        return out[0]
    return z3.Or(*out)


def b_term(x):
    if isinstance(x, bool):
        return z3.BoolVal(x)
    return x
