"""Symbolic executor for the go/ssa export (see DESIGN.md section 2.2)."""
import sys
import time
import itertools

import z3

import fpops
from fpops import FV, EngineError, CTX
from values import (Ptr, Slice, Str, Iface, Func, MapRef, Tup, Agg, POISON, Poison,
                    wrap_int, bv, b_not, b_and, b_or, b_term)


class PathEnd(Exception):
    """current path ends (infeasible, assumption false, panic, done)."""
    def __init__(self, kind, msg=''):
        self.kind = kind
        self.msg = msg


class JoinReached(Exception):
    pass


class TooManyJoinStates(Exception):
    pass


MISSING = object()


class ForkReq(Exception):
    """re-execute the current instruction in several states."""
    def __init__(self, states):
        self.states = states


class TailCall:
    """returned by a stub: call fid(args) in its place (e.g. sync.Pool.Get -> New)."""
    def __init__(self, fid, args, binds=()):
        self.fid, self.args, self.binds = fid, args, binds


class ForkList(list):
    """returned by an intercept that forks: list of (state, value)."""
    pass


class Frame:
    __slots__ = ('fid', 'fn', 'blocks', 'bi', 'ii', 'regs', 'defers', 'ret', 'merge_id')

    def __init__(self, fid, fn):
        self.fid = fid
        self.fn = fn
        self.blocks = fn['blocks']
        self.bi = 0
        self.ii = 0
        self.regs = {}
        self.defers = []
        self.ret = None
        self.merge_id = None

    def copy(self):
        f = Frame.__new__(Frame)
        f.fid = self.fid
        f.fn = self.fn
        f.blocks = self.blocks
        f.bi = self.bi
        f.ii = self.ii
        f.regs = dict(self.regs)
        f.defers = list(self.defers)
        f.ret = self.ret
        f.merge_id = self.merge_id
        return f


class State:
    def __init__(self):
        self.frames = []
        self.heap = {}
        self.owned = set()
        self.pc = []
        self.model = None
        self.ro = {}          # objid -> label (read-only regions)
        self.steps = 0
        self.nondet = {}      # key -> (kind, bits, term)
        self.counts = {}
        self.choices = {}     # key -> concrete value chosen
        self.conc = {}        # term id -> concrete value (after concretisation)
        self.written = set()  # object ids written (footprint)
        self.expect_panic = False
        self.events = []
        self.labels = []
        self.notes = []
        self.joins = []
        self.at_join = None
        self.lits = {}
        self.callmemo = {}
        self.done = None

    def fork(self):
        s = State.__new__(State)
        s.frames = [f.copy() for f in self.frames]
        s.heap = dict(self.heap)
        self.owned = set()
        s.owned = set()
        s.pc = list(self.pc)
        s.model = self.model
        s.ro = dict(self.ro)
        s.steps = self.steps
        s.nondet = dict(self.nondet)
        s.counts = dict(self.counts)
        s.choices = dict(self.choices)
        s.conc = dict(self.conc)
        s.written = set(self.written)
        s.expect_panic = self.expect_panic
        s.events = list(self.events)
        s.labels = list(self.labels)
        s.joins = list(self.joins)
        s.at_join = None
        s.lits = dict(self.lits)
        s.callmemo = dict(self.callmemo)
        s.notes = list(self.notes)
        s.done = None
        return s

    def wobj(self, obj):
        """object slots list, writable."""
        if obj not in self.owned:
            self.heap[obj] = list(self.heap[obj])
            self.owned.add(obj)
        return self.heap[obj]


class Obligation:
    def __init__(self, harness, label, pc, neg, nondet, choices, kind='assert', line=None):
        self.harness = harness
        self.label = label
        self.pc = pc
        self.neg = neg          # term that must be UNSAT together with pc (None: trivially violated)
        self.nondet = nondet
        self.choices = choices
        self.kind = kind
        self.line = line


class Result:
    def __init__(self):
        self.obligations = []
        self.folded = 0         # assertions closed by constant folding
        self.reached = {}       # label -> confirmed feasible
        self.labels = set()
        self.paths = 0
        self.ended = {}         # kind -> count
        self.steps = 0
        self.solver_calls = 0
        self.solver_time = 0.0
        self.funcs = {}         # fid -> instructions executed
        self.unwind = 0
        self.assumptions = set()
        self.stubs = set()
        self.notes = []
        self.ro_writes = []
        self.forks = 0
        self.merges = 0


INTERCEPTS = {}
STUBS = {}


def intercept(name):
    def deco(f):
        INTERCEPTS[name] = f
        return f
    return deco


def stub(name):
    def deco(f):
        STUBS[name] = f
        return f
    return deco


_objctr = itertools.count(1)
OBJLEAF = {}

# z3 AST ids are recycled once a term is garbage collected. Every id used as a
# dictionary key is therefore pinned here (the term stays alive for the whole
# run of the job), so an id can never come to denote a different term.
_PINNED = {}


def tid(t):
    i = t.get_id()
    if i not in _PINNED:
        _PINNED[i] = t
    return i



def ubound(t, depth=0):
    """cheap syntactic upper bound (unsigned) of BitVec term t."""
    if isinstance(t, int):
        return t
    w = t.size()
    full = (1 << w) - 1
    if depth > 12:
        return full
    if z3.is_bv_value(t):
        return t.as_long()
    k = t.decl().kind()
    ch = t.children()
    if k == z3.Z3_OP_ZERO_EXT:
        return ubound(ch[0], depth + 1)
    if k == z3.Z3_OP_BAND:
        return min(ubound(c, depth + 1) for c in ch)
    if k == z3.Z3_OP_BUREM or k == z3.Z3_OP_BUREM_I:
        if z3.is_bv_value(ch[1]) and ch[1].as_long() > 0:
            return min(ubound(ch[0], depth + 1), ch[1].as_long() - 1)
    if k == z3.Z3_OP_BUDIV or k == z3.Z3_OP_BUDIV_I:
        if z3.is_bv_value(ch[1]) and ch[1].as_long() > 0:
            return ubound(ch[0], depth + 1) // ch[1].as_long()
    if k == z3.Z3_OP_BLSHR:
        if z3.is_bv_value(ch[1]):
            return ubound(ch[0], depth + 1) >> ch[1].as_long()
    if k == z3.Z3_OP_CONCAT:
        if z3.is_bv_value(ch[0]) and ch[0].as_long() == 0 and len(ch) == 2:
            return ubound(ch[1], depth + 1)
    if k == z3.Z3_OP_EXTRACT:
        hi, lo = z3.get_payload(t) if False else (t.params()[0], t.params()[1])
        m = (1 << (hi - lo + 1)) - 1
        if lo == 0:
            return min(m, ubound(ch[0], depth + 1))
        return m
    if k == z3.Z3_OP_ITE:
        return max(ubound(ch[1], depth + 1), ubound(ch[2], depth + 1))
    if k == z3.Z3_OP_BADD:
        s = sum(ubound(c, depth + 1) for c in ch)
        if s <= full:
            return s
    return full


class Exec:
    def __init__(self, prog, params=None, presets=None, opts=None):
        self.prog = prog
        self.params = params or {}
        self.presets = presets or {}
        self.opts = opts or {}
        self.res = Result()
        self.harness = None
        self.feas_timeout = self.opts.get('feas_timeout_ms', 5000)
        self.max_steps = self.opts.get('max_steps', 400000)
        self.max_paths = self.opts.get('max_paths', 200000)
        self.zero_cache = {}
        self.leaf_cache = {}
        self.gobj = {}
        self.base = None
        self.init_poison_pkgs = set()
        self.merge_funcs = set(self.opts.get('merge', []))
        self.trace = self.opts.get('trace', False)
        self.init_mode = False
        self.ifconv = self.opts.get('ifconv', True)
        self.inits_run = set()
        self.no_memo = set(self.opts.get('no_memo', []))
        self.sat_cache = {}
        self.bv_cache = {}
        self.probe_bv = z3.Probe('is-qfbv')
        self.inc = z3.Solver()
        self.fp_tactic = z3.Then('simplify', 'fpa2bv', 'simplify', 'bit-blast', 'sat')
        self.inc_stack = []
        self._last_model = None

    # ------------------------------------------------------------------ types
    def T(self, i):
        return self.prog.types[i]

    def U(self, t):
        return self.prog.under(t)

    def leafs(self, t):
        r = self.leaf_cache.get(t.id)
        if r is None:
            r = self.prog.leaf_types(t)
            self.leaf_cache[t.id] = r
        return r

    def zero_leaf(self, u):
        k = u.k
        if k == 'basic':
            if u.is_bool:
                return False
            if u.is_float:
                return FV(u.bits, 0.0)
            if u.is_string:
                return Str()
            if u.is_int:
                return 0
            return None
        if k == 'slice':
            return Slice(None, 0, 0, 0, self.prog.nslots(self.T(u.elem)))
        return None

    def zero_slots(self, t):
        r = self.zero_cache.get(t.id)
        if r is None:
            r = tuple(self.zero_leaf(u) for u in self.leafs(t))
            self.zero_cache[t.id] = r
        return r

    def is_agg(self, t):
        return self.U(t).k in ('array', 'struct')

    def zero_value(self, t):
        if self.is_agg(t):
            return Agg(self.zero_slots(t))
        if self.U(t).k == 'tuple':
            return Tup([self.zero_value(self.T(e)) for e in self.U(t).elems])
        return self.zero_slots(t)[0]

    # ------------------------------------------------------------------ heap
    def new_obj(self, st, slots, label='', pattern=None):
        oid = next(_objctr)
        st.heap[oid] = slots
        st.owned.add(oid)
        if pattern:
            OBJLEAF[oid] = pattern
        return oid

    def leaf_of(self, oid, k):
        p = OBJLEAF.get(oid)
        if not p:
            return None
        return p[k % len(p)]

    def ite_typed(self, g, a, b, t):
        """if-then-else on values of Go type t."""
        u = self.U(t)
        if u.k == 'tuple':
            return Tup([self.ite_typed(g, x, y, self.T(e)) for x, y, e in zip(a, b, u.elems)])
        if u.k in ('array', 'struct'):
            leafs = self.leafs(t)
            return Agg([self.ite(g, x, y, lf) for x, y, lf in zip(a, b, leafs)])
        return self.ite(g, a, b, u)

    def sym_candidates(self, ptr, st=None):
        """list of (guard, offset) for a pointer with symbolic indices."""
        cands = [(True, ptr.off)]
        for (idx, stride, count) in ptr.sym:
            if st is not None and tid(idx) in st.conc:
                k = st.conc[tid(idx)]
                cands = [(g, off + k * stride) for (g, off) in cands]
                continue
            nc = []
            for (g, off) in cands:
                for k in range(count):
                    nc.append((b_and(g, idx == k), off + k * stride))
            cands = nc
        return cands

    def load(self, st, ptr, t):
        if ptr is None:
            raise PathEnd('panic', 'nil pointer dereference')
        if isinstance(ptr, Poison):
            raise EngineError('use of uninitialised (skipped init) pointer')
        n = self.prog.nslots(t)
        slots = st.heap[ptr.obj]
        if ptr.sym is None:
            off = ptr.off
            if self.is_agg(t):
                vals = slots[off:off + n]
                for v in vals:
                    if v is POISON:
                        raise EngineError('read of poisoned global')
                return Agg(vals)
            v = slots[off]
            if v is POISON:
                raise EngineError('read of poisoned global')
            return v
        cands = self.sym_candidates(ptr, st)
        leafs = self.leafs(t)
        out = []
        try:
            for j in range(n):
                vals = [(g, slots[off + j]) for (g, off) in cands]
                out.append(self.ite_chain(vals, leafs[j]))
        except Unmergeable:
            # elements of different shape (e.g. strings of different length):
            # fork over the feasible index values instead
            todo = [idx for (idx, stride, count) in ptr.sym if tid(idx) not in st.conc]
            if not todo:
                raise
            for idx in todo:
                self.concretize(st, idx, 'array index')
            return self.load(st, ptr, t)
        if self.is_agg(t):
            return Agg(out)
        return out[0]

    def ite_chain(self, vals, leaf):
        # vals: list of (guard, value); guards are exhaustive and exclusive
        first = vals[0][1]
        if all(self.same(v, first) for (_, v) in vals[1:]):
            return first
        r = vals[-1][1]
        for (g, v) in reversed(vals[:-1]):
            r = self.ite(g, v, r, leaf)
        return r

    def same(self, a, b):
        if a is b:
            return True
        if isinstance(a, (int, bool)) and isinstance(b, (int, bool)):
            return a == b and type(a) == type(b)
        if isinstance(a, FV) and isinstance(b, FV):
            if fpops.is_conc(a) and fpops.is_conc(b):
                return fpops.bits_of_py(a.w, a.v) == fpops.bits_of_py(b.w, b.v) and a.bits == b.bits
            if not fpops.is_conc(a) and not fpops.is_conc(b):
                return a.v.eq(b.v)
            return False
        if isinstance(a, z3.ExprRef) and isinstance(b, z3.ExprRef):
            return a.eq(b)
        if isinstance(a, Str) and isinstance(b, Str):
            return len(a.b) == len(b.b) and all(self.same(x, y) for x, y in zip(a.b, b.b))
        if isinstance(a, Ptr) and isinstance(b, Ptr):
            return a.obj == b.obj and a.off == b.off and a.sym is None and b.sym is None
        if isinstance(a, Slice) and isinstance(b, Slice):
            return (a.obj == b.obj and a.off == b.off and self.same(a.len, b.len) and self.same(a.cap, b.cap))
        if isinstance(a, Iface) and isinstance(b, Iface):
            return a.t is b.t and self.same(a.v, b.v)
        if isinstance(a, Func) and isinstance(b, Func):
            return a.fn == b.fn and len(a.binds) == len(b.binds) and all(self.same(x, y) for x, y in zip(a.binds, b.binds))
        if isinstance(a, (Agg, Tup)) and isinstance(b, (Agg, Tup)):
            return len(a) == len(b) and all(self.same(x, y) for x, y in zip(a, b))
        if isinstance(a, MapRef) and isinstance(b, MapRef):
            return a.obj == b.obj
        return False

    def ite(self, g, a, b, leaf=None):
        """value-level if-then-else; raises Unmergeable when shapes differ."""
        if isinstance(g, bool):
            return a if g else b
        if self.same(a, b):
            return a
        if isinstance(a, bool) or isinstance(b, bool) or z3.is_bool(a) or z3.is_bool(b):
            return z3.If(g, b_term(a), b_term(b))
        if isinstance(a, FV) and isinstance(b, FV):
            ta, tb = fpops._coerce(a, b)[1:]
            if isinstance(ta, float):
                ta, tb = fpops.fpval(a.w, ta), fpops.fpval(b.w, tb)
            bits = None
            if a.bits is not None and b.bits is not None:
                bits = z3.If(g, bv(a.bits, a.w), bv(b.bits, b.w))
            return FV(a.w, z3.If(g, ta, tb), bits)
        if isinstance(a, (int, z3.BitVecRef)) and isinstance(b, (int, z3.BitVecRef)):
            if isinstance(a, z3.BitVecRef):
                w = a.size()
            elif isinstance(b, z3.BitVecRef):
                w = b.size()
            elif leaf is not None and leaf.bits:
                w = leaf.bits
            else:
                raise Unmergeable('int width unknown')
            return z3.If(g, bv(a, w), bv(b, w))
        if isinstance(a, Str) and isinstance(b, Str) and len(a.b) == len(b.b):
            return Str([x if self.same(x, y) else z3.If(g, bv(x, 8), bv(y, 8)) for x, y in zip(a.b, b.b)])
        if isinstance(a, (Agg, Tup)) and isinstance(b, (Agg, Tup)) and len(a) == len(b):
            return type(a)([self.ite(g, x, y) for x, y in zip(a, b)])
        if isinstance(a, Slice) and isinstance(b, Slice) and a.obj == b.obj and a.off == b.off and a.stride == b.stride:
            return Slice(a.obj, a.off, self.ite(g, a.len, b.len, INT), self.ite(g, a.cap, b.cap, INT), a.stride)
        if isinstance(a, Iface) and isinstance(b, Iface) and a.t is b.t:
            return Iface(a.t, self.ite(g, a.v, b.v))
        raise Unmergeable('cannot merge %r / %r' % (type(a).__name__, type(b).__name__))

    def check_ro(self, st, obj, what):
        if obj in st.ro:
            self.res.ro_writes.append((self.harness, st.ro[obj], what, list(st.pc), dict(st.nondet), dict(st.choices)))
            self.add_obligation(st, 'write into read-only region %s (%s)' % (st.ro[obj], what), None, kind='frame')

    def store(self, st, ptr, val, t=None):
        if ptr is None:
            raise PathEnd('panic', 'nil pointer dereference (store)')
        if isinstance(ptr, Poison):
            raise EngineError('store through poisoned pointer')
        self.check_ro(st, ptr.obj, 'store')
        st.written.add(ptr.obj)
        slots = st.wobj(ptr.obj)
        vals = list(val) if isinstance(val, Agg) else [val]
        if ptr.sym is None:
            off = ptr.off
            slots[off:off + len(vals)] = vals
            return
        cands = self.sym_candidates(ptr, st)
        for (g, off) in cands:
            for j, v in enumerate(vals):
                slots[off + j] = self.ite(g, v, slots[off + j], self.leaf_of(ptr.obj, off + j))

    # ------------------------------------------------------------------ solver
    def is_bv(self, c):
        """is constraint c pure QF_BV (no floating point, arrays, UFs)?"""
        k = tid(c)
        r = self.bv_cache.get(k)
        if r is None:
            g = z3.Goal()
            g.add(c)
            r = bool(self.probe_bv(g))
            self.bv_cache[k] = r
        return r

    def solve_raw(self, pc, extra):
        """one solver query; returns (result, model). Pure bit-vector queries
        go to a live incremental solver whose assertion stack mirrors the path
        condition; anything with floating point gets a fresh solver (z3's
        incremental FP path is unreliable, see DESIGN section 5)."""
        t0 = time.time()
        self.res.solver_calls += 1
        allbv = all(self.is_bv(c) for c in pc) and (extra is None or self.is_bv(extra))
        if allbv:
            ids = [tid(c) for c in pc]
            stack = self.inc_stack
            n = 0
            while n < len(stack) and n < len(ids) and stack[n] == ids[n]:
                n += 1
            while len(stack) > n:
                self.inc.pop()
                stack.pop()
            for c in pc[n:]:
                self.inc.push()
                self.inc.add(c)
                stack.append(tid(c))
            if extra is not None:
                self.inc.push()
                self.inc.add(extra)
            r = self.inc.check()
            m = self.inc.model() if r == z3.sat else None
            if extra is not None:
                self.inc.pop()
        else:
            # floating point: eager bit-blasting pipeline first (3-4x faster on
            # the typical infeasible branch), ordinary solver when it cannot decide
            s = self.fp_tactic.solver()
            s.set('timeout', self.feas_timeout)
            for c in pc:
                s.add(c)
            if extra is not None:
                s.add(extra)
            r = s.check()
            if r == z3.unknown:
                s = z3.Solver()
                s.set('timeout', self.feas_timeout)
                for c in pc:
                    s.add(c)
                if extra is not None:
                    s.add(extra)
                r = s.check()
            m = s.model() if r == z3.sat else None
        self.res.solver_time += time.time() - t0
        if r == z3.sat:
            return 'sat', m
        if r == z3.unsat:
            return 'unsat', None
        return 'unknown', None

    def sat(self, st, extra=None, want_model=False):
        """feasibility of st.pc (+ extra). returns 'sat' / 'unsat' / 'unknown'."""
        if extra is not None and isinstance(extra, bool):
            if not extra:
                return 'unsat'
            extra = None
        if st.model is not None:
            try:
                if extra is None:
                    return 'sat'
                v = st.model.eval(extra, model_completion=True)
                if z3.is_true(v):
                    self._last_model = st.model
                    return 'sat'
            except z3.Z3Exception:
                pass
        r, m = self.solve_raw(st.pc, extra)
        if r == 'sat':
            if extra is None or want_model:
                st.model = m
            self._last_model = m
        return r

    def add_pc(self, st, c):
        if isinstance(c, bool):
            if not c:
                raise PathEnd('infeasible')
            return
        st.pc.append(c)
        if st.model is not None:
            try:
                v = st.model.eval(c, model_completion=True)
                if not z3.is_true(v):
                    st.model = None
            except z3.Z3Exception:
                st.model = None

    def simp(self, c):
        if isinstance(c, bool):
            return c
        c = z3.simplify(c)
        if z3.is_true(c):
            return True
        if z3.is_false(c):
            return False
        return c

    def require(self, st, cond, msg):
        """cond must hold; the failing side is a panic path."""
        if cond is True:
            return
        cond = self.simp(cond)
        if cond is True:
            return
        if cond is False:
            raise PathEnd('panic', msg)
        r = self.sat(st, z3.Not(cond))
        if r != 'unsat':
            # feasible (or unknown) panic path
            self.panic_path(st, msg, z3.Not(cond), unknown=(r == 'unknown'))
            r2 = self.sat(st, cond)
            if r2 == 'unsat':
                raise PathEnd('panic-only')
            self.add_pc(st, cond)
        # unsat: cond is implied, nothing to add

    def panic_path(self, st, msg, extra, unknown=False):
        self.res.ended['panic'] = self.res.ended.get('panic', 0) + 1
        if st.expect_panic:
            return
        pc = list(st.pc)
        if extra is not None:
            pc.append(extra)
        fr = st.frames[-1]
        where = '%s' % fr.fid
        ob = Obligation(self.harness, 'no panic: %s in %s' % (msg, where), pc, None, dict(st.nondet), dict(st.choices), kind='panic')
        ob.maybe = unknown
        self.res.obligations.append(ob)

    def add_obligation(self, st, label, neg, kind='assert', line=None):
        ob = Obligation(self.harness, label, list(st.pc), neg, dict(st.nondet), dict(st.choices), kind=kind, line=line)
        self.res.obligations.append(ob)

    def branch(self, st, cond):
        """returns list of (state, bool) for feasible outcomes of cond."""
        cond = self.simp(cond)
        if isinstance(cond, bool):
            return [(st, cond)]
        # the same condition (syntactically) was decided earlier on this path:
        # follow that decision (relational harnesses run the same code twice)
        lk = st.lits.get(tid(cond))
        if lk is None and z3.is_not(cond):
            inner = st.lits.get(tid(cond.arg(0)))
            if inner is not None:
                lk = not inner
        if lk is not None:
            if self.trace:
                print('BRANCH memo', tid(cond), lk, file=sys.stderr)
            return [(st, lk)]
        if self.trace:
            fr = st.frames[-1]
            print('BRANCH new', fr.fid, fr.bi, tid(cond), cond.sexpr()[:150].replace('\n', ' '), file=sys.stderr)
        ncond = z3.Not(cond)
        known = None
        if st.model is not None:
            try:
                v = st.model.eval(cond, model_completion=True)
                if z3.is_true(v):
                    known = True
                elif z3.is_false(v):
                    known = False
            except z3.Z3Exception:
                known = None
        if known is None:
            rt, mt = self.solve_raw(st.pc, cond)
            if rt == 'unsat':
                st.lits[tid(cond)] = False
                return [(st, False)]
            rf, mf = self.solve_raw(st.pc, ncond)
            if rf == 'unsat':
                if mt is not None:
                    st.model = mt
                st.lits[tid(cond)] = True
                return [(st, True)]
        elif known:
            mt = st.model
            rf, mf = self.solve_raw(st.pc, ncond)
            if rf == 'unsat':
                st.lits[tid(cond)] = True
                return [(st, True)]
        else:
            mf = st.model
            rt, mt = self.solve_raw(st.pc, cond)
            if rt == 'unsat':
                st.lits[tid(cond)] = False
                return [(st, False)]
        self.res.forks += 1
        st2 = st.fork()
        st.pc.append(cond)
        st.model = mt
        st.lits[tid(cond)] = True
        st2.pc.append(ncond)
        st2.model = mf
        st2.lits[tid(cond)] = False
        return [(st, True), (st2, False)]

    def concretize(self, st, t, what='value', limit=None):
        """python int for t; forks over all feasible values when symbolic."""
        if isinstance(t, int):
            return t
        key = tid(t)
        if key in st.conc:
            return st.conc[key]
        ts = z3.simplify(t)
        if z3.is_bv_value(ts):
            return ts.as_long()
        limit = limit or self.opts.get('concretize_limit', 70)
        vals = []
        s = z3.Solver()
        s.set('timeout', self.feas_timeout)
        for c in st.pc:
            s.add(c)
        while True:
            t0 = time.time()
            r = s.check()
            self.res.solver_calls += 1
            self.res.solver_time += time.time() - t0
            if r == z3.unsat:
                break
            if r != z3.sat:
                # one retry with ten times the feasibility budget before giving up
                s.set('timeout', self.feas_timeout * 10)
                r = s.check()
                s.set('timeout', self.feas_timeout)
                if r == z3.unsat:
                    break
                if r != z3.sat:
                    raise EngineError('concretize: solver unknown for %s' % what)
            v = s.model().eval(t, model_completion=True).as_long()
            vals.append(v)
            if len(vals) > limit:
                raise EngineError('concretize: more than %d values for %s' % (limit, what))
            s.add(t != v)
        if not vals:
            raise PathEnd('infeasible')
        if len(vals) == 1:
            st.conc[key] = vals[0]
            return vals[0]
        states = []
        for i, v in enumerate(vals):
            s2 = st if i == len(vals) - 1 else st.fork()
            s2.conc[key] = v
            s2.model = None
            s2.pc.append(t == v)
            states.append(s2)
        self.res.forks += len(vals) - 1
        raise ForkReq(states)

    def real_f2i(self, st, x):
        """float->int conversion in a real reading: truncation toward zero, decided by case
        split over the small integers -1..8 (loop counts); anything else ends the path as an
        unwinding failure (inconclusive)."""
        v = x.v
        key = tid(v)
        if key in st.conc:
            return st.conc[key]
        cases = []
        for k in range(-1, 9):
            if k > 0:
                c = z3.And(v >= k, v < k + 1)
            elif k == 0:
                c = z3.And(v > -1, v < 1)
            else:
                c = z3.And(v <= k, v > k - 1)
            if self.sat(st, c) != 'unsat':
                cases.append((k, c))
        other = z3.Or(v >= 9, v <= -2)
        if self.sat(st, other) != 'unsat':
            s2 = st.fork()
            s2.pc.append(other)
            self.add_obligation(s2, 'UNWIND: float->int conversion outside [-1, 8] in a real reading', None, kind='unwind')
            self.res.unwind += 1
        if not cases:
            raise PathEnd('infeasible')
        states = []
        for i, (k, c) in enumerate(cases):
            s2 = st if i == len(cases) - 1 else st.fork()
            s2.conc[key] = k
            s2.model = None
            s2.pc.append(c)
            states.append(s2)
        self.res.forks += len(cases) - 1
        raise ForkReq(states)

    def signed_val(self, v, leaf):
        return v

    # ------------------------------------------------------------------ running
    def setup(self):
        """allocate globals, run package initialisers concretely."""
        st = State()
        inited = set()
        for fid in self.prog.inits:
            inited.add(self.prog.funcs[fid].get('pkg'))
        for name, g in self.prog.globals.items():
            t = self.T(g['t'])
            slots = list(self.zero_slots(t))
            oid = self.new_obj(st, slots, 'global ' + name, self.leafs(t))
            self.gobj[name] = oid
        self.harness = '<init>'
        init_ids = set(self.prog.inits)
        for fid in self.prog.inits:
            fn = self.prog.funcs[fid]
            fr = Frame(fid, fn)
            st.frames = [fr]
            self.init_mode = True
            self.init_set = init_ids
            done = self.run_to_end(st)
            if len(done) != 1:
                raise EngineError('init %s forked' % fid)
            st = done[0]
        self.init_mode = False
        # variables of packages whose initialiser never ran must never be read
        ran = set(self.inits_run) | inited
        for name, g in self.prog.globals.items():
            if g.get('pkg') not in ran and not name.endswith('init$guard'):
                oid = self.gobj[name]
                st.heap[oid] = [POISON] * len(st.heap[oid])
        st.frames = []
        st.pc = []
        st.model = None
        st.steps = 0
        st.written = set()
        self.base = st
        # read-only by default: every package-level variable
        self.global_objs = {oid: name for name, oid in self.gobj.items()}
        return st

    def run_harness(self, fid, ro_globals=True):
        self.harness = fid
        self.finished_all = []   # also available when exploration is cut short
        st = self.base.fork()
        if ro_globals:
            for oid, name in self.global_objs.items():
                if name.startswith('vph/'):
                    continue
                st.ro[oid] = 'package variable ' + name
        fn = self.prog.funcs[fid]
        st.frames = [Frame(fid, fn)]
        return self.run_to_end(st)

    def run_to_end(self, st0):
        """explore all paths from st0 until the bottom frame returns."""
        work = [st0]
        finished = []
        while work:
            st = work.pop()
            if self.res.paths > self.max_paths:
                raise EngineError('path budget exceeded')
            try:
                while True:
                    r = self.step(st)
                    if r is not None:
                        if r == 'done':
                            finished.append(st)
                            if getattr(self, 'finished_all', None) is not None:
                                self.finished_all.append(st)
                            self.res.paths += 1
                            self.res.ended['done'] = self.res.ended.get('done', 0) + 1
                            break
                        # list of successor states
                        for s2 in r[1:]:
                            work.append(s2)
                        st = r[0]
            except PathEnd as e:
                self.res.paths += 1
                self.res.ended[e.kind] = self.res.ended.get(e.kind, 0) + 1
                if e.kind == 'panic':
                    self.panic_path(st, e.msg, None)
                    self.res.ended['panic'] -= 1
            except ForkReq as f:
                work.extend(f.states)
            self.res.steps += 0
        return finished

    def step(self, st):
        fr = st.frames[-1]
        ins = fr.blocks[fr.bi]['instrs'][fr.ii]
        st.steps += 1
        self.res.steps += 1
        if st.steps > self.max_steps:
            self.res.unwind += 1
            self.add_obligation(st, 'UNWIND: step budget exceeded in %s' % fr.fid, None, kind='unwind')
            raise PathEnd('unwind')
        self.res.funcs[fr.fid] = self.res.funcs.get(fr.fid, 0) + 1
        op = ins['op']
        h = HANDLERS.get(op)
        if h is None:
            raise EngineError('unsupported instruction %s in %s' % (op, fr.fid))
        if self.trace:
            print('  ' * len(st.frames), fr.fid, fr.bi, fr.ii, op, ins.get('r'), file=sys.stderr)
        r = h(self, st, fr, ins)
        if CTX.pending:
            for c in CTX.pending:
                self.add_pc(st, c)
            CTX.pending.clear()
        if CTX.range_checks:
            # rounded-real reading: the relative-error model is only valid while no
            # operation overflows; each rounded operation gets that side obligation
            if self.opts.get('range_obligations', True):
                for (t, w) in CTX.range_checks:
                    big = fpops.realval(3.4028234663852886e38 if w == 32 else 1.7976931348623157e308)
                    self.add_obligation(st, 'rounded-real reading: no float%d operation overflows (%s)' % (w, fr.fid.split('.')[-1]),
                                        z3.Or(t > big, t < -big), kind='range')
            CTX.range_checks.clear()
        return r

    def val(self, fr, o):
        k = o['k']
        if k == 'reg':
            return fr.regs[o['n']]
        if k == 'const':
            v = o.get('_v', self)
            if v is self:
                v = self.const(o)
                o['_v'] = v
            return v
        if k == 'global':
            return Ptr(self.gobj[o['n']], 0)
        if k == 'func':
            return Func(o['id'])
        if k == 'builtin':
            return Func('builtin:' + o['n'])
        raise EngineError('operand kind ' + k)

    def const(self, o):
        t = self.T(o['t'])
        u = self.U(t)
        if o.get('zero'):
            return self.zero_value(t)
        if 'str' in o:
            return Str(o['str'])
        if 'fbits' in o:
            return fpops.fconst_bits(u.bits, int(o['fbits']))
        if 'v' in o:
            v = o['v']
            if isinstance(v, bool):
                return v
            return wrap_int(int(v), u.bits, u.unsigned)
        raise EngineError('unsupported constant %r' % o)

    def set(self, fr, ins, v):
        fr.regs[ins['r']] = v

    def advance(self, fr):
        fr.ii += 1

    def goto(self, st, fr, target):
        """transfer control to block index target, evaluating its phis."""
        blk = fr.blocks[target]
        instrs = blk['instrs']
        if instrs and instrs[0]['op'] == 'Phi':
            e = blk['preds'].index(fr.bi)
            newvals = []
            i = 0
            while i < len(instrs) and instrs[i]['op'] == 'Phi':
                newvals.append((instrs[i]['r'], self.val(fr, instrs[i]['edges'][e])))
                i += 1
            for (r, v) in newvals:
                fr.regs[r] = v
            fr.ii = i
        else:
            fr.ii = 0
        fr.bi = target
        if self.trace:
            print('JOINDBG goto', target, 'joins', st.joins, 'depth', len(st.frames), file=sys.stderr)
        if st.joins and st.joins[-1][0] == len(st.frames) and st.joins[-1][1] == target:
            raise JoinReached()

    # ---------------------------------------------------------- if-conversion
    def ipdoms(self, fn):
        """immediate post-dominator per block (None = function exit)."""
        r = fn.get('_ipdom')
        if r is not None:
            return r
        blocks = fn['blocks']
        n = len(blocks)
        EXIT = n
        succs = [list(b['succs']) or [EXIT] for b in blocks] + [[]]
        full = set(range(n + 1))
        pdom = [set(full) for _ in range(n + 1)]
        pdom[EXIT] = {EXIT}
        changed = True
        while changed:
            changed = False
            for b in range(n - 1, -1, -1):
                new = set(full)
                for sx in succs[b]:
                    new &= pdom[sx]
                new = new | {b}
                if new != pdom[b]:
                    pdom[b] = new
                    changed = True
        ip = []
        for b in range(n):
            cands = pdom[b] - {b}
            best = None
            for c in cands:
                # the immediate post-dominator is the candidate post-dominated by no other candidate... i.e. closest
                if all((c == d) or (d in pdom[c]) for d in cands):
                    best = c
                    break
            ip.append(None if best is None or best == EXIT else best)
        fn['_ipdom'] = ip
        return ip

    def region_ok(self, fn, b, J, limit):
        """blocks strictly between If-block b and join J: small and acyclic?"""
        blocks = fn['blocks']
        seen = set()
        stack = [x for x in blocks[b]['succs'] if x != J]
        while stack:
            x = stack.pop()
            if x in seen:
                continue
            if x == b:
                return False
            seen.add(x)
            if len(seen) > limit:
                return False
            for y in blocks[x]['succs']:
                if y != J:
                    stack.append(y)
        # acyclic check: no block of the region reaches itself inside the region
        for x in seen:
            st2 = [y for y in blocks[x]['succs'] if y in seen]
            vis = set()
            while st2:
                y = st2.pop()
                if y == x:
                    return False
                if y in vis:
                    continue
                vis.add(y)
                st2.extend(z for z in blocks[y]['succs'] if z in seen)
        return True

    def regtypes(self, fn):
        r = fn.get('_regtypes')
        if r is None:
            r = {}
            for i, t in enumerate(fn.get('params') or []):
                r['p%d' % i] = t
            for i, t in enumerate(fn.get('freevars') or []):
                r['fv%d' % i] = t
            for b in fn['blocks']:
                for ins in b['instrs']:
                    if 'r' in ins and 't' in ins:
                        r[ins['r']] = ins['t']
            fn['_regtypes'] = r
        return r

    def explore_to_join(self, states, depth, J):
        """run states until they enter block J of the frame at the given depth.
        returns (joined, escaped)."""
        joined, escaped = [], []
        work = list(states)
        budget = self.opts.get('join_states', 64)
        token = (depth, J, next(_objctr))
        self._join_leftover = []
        while work:
            st = work.pop()
            st.joins.append(token)
            try:
                while True:
                    if len(st.frames) < depth:
                        raise EngineError('left the frame without joining (%s, join block %d, if at %s)' % (st.frames[-1].fid if st.frames else '?', J, getattr(self, '_join_ctx', '?')))
                    r = self.step(st)
                    if r is not None:
                        if r == 'done':
                            st.joins.pop()
                            escaped.append(('done', st))
                            break
                        if st.joins and st.joins[-1] == token:
                            st.joins.pop()
                        for s2 in r:
                            if s2.joins and s2.joins[-1] == token:
                                s2.joins.pop()
                        rest = []
                        for s2 in r:
                            if getattr(s2, 'at_join', None) == (depth, J):
                                s2.at_join = None
                                joined.append(s2)
                            else:
                                rest.append(s2)
                        if not rest:
                            st = None
                            break
                        work.extend(rest[1:])
                        st = rest[0]
                        if len(work) + len(joined) > budget:
                            # too many states in this region: give up the conversion, hand
                            # everything back to the caller to continue as ordinary forks
                            self._join_leftover = [st] + work
                            return joined, escaped
                        st.joins.append(token)
            except JoinReached:
                st.joins.pop()
                joined.append(st)
            except PathEnd as e:
                st.joins.pop()
                self.res.ended[e.kind] = self.res.ended.get(e.kind, 0) + 1
                if e.kind == 'panic':
                    self.panic_path(st, e.msg, None)
                    self.res.ended['panic'] -= 1
            except ForkReq as f:
                if st.joins and st.joins[-1] == token:
                    st.joins.pop()
                for s2 in f.states:
                    if s2.joins and s2.joins[-1] == token:
                        s2.joins.pop()
                work.extend(f.states)
        return joined, escaped

    def merge_at_join(self, base_len, joined):
        """merge states that all sit at the same join point; raises Unmergeable."""
        first = joined[0]
        guards = []
        for f in joined:
            suffix = f.pc[base_len:]
            guards.append(b_and(*suffix) if suffix else True)
        # frames: all but the top must be identical objects in content (they are suspended)
        top0 = first.frames[-1]
        rt = self.regtypes(top0.fn)
        for f in joined[1:]:
            if len(f.frames) != len(first.frames):
                raise Unmergeable('frame depth differs')
            t = f.frames[-1]
            if t.bi != top0.bi or t.ii != top0.ii or t.fid != top0.fid or len(t.defers) != len(top0.defers):
                raise Unmergeable('position differs')
        newregs = dict(joined[-1].frames[-1].regs)
        for name in list(newregs):
            vals = [f.frames[-1].regs.get(name, MISSING) for f in joined]
            v0 = vals[-1]
            if all(v is v0 for v in vals):
                continue
            if any(v is MISSING for v in vals):
                # defined on some paths only: cannot be live at the join
                newregs.pop(name, None)
                continue
            t = rt.get(name)
            val = v0
            for g, v in zip(reversed(guards[:-1]), reversed(vals[:-1])):
                if v is val:
                    continue
                val = self.ite_typed(g, v, val, self.T(t)) if t is not None else self.ite(g, v, val)
            newregs[name] = val
        m, _ = self.merge_states(None, joined, base_len, [None] * len(joined), None, pc_prefix=first.pc[:base_len])
        m.frames = [x.copy() for x in first.frames]
        m.frames[-1].regs = newregs
        return m

    def do_call(self, st, fr, ins, call, is_defer=False):
        mode = call['mode']
        args = [self.val(fr, a) for a in (call['args'] or [])]
        if mode == 'builtin':
            v = self.builtin(st, fr, ins, call['name'], args, call)
            self.set_result(fr, ins, v)
            self.advance(fr)
            return None
        if mode == 'static':
            fid = call['fn']['id']
            binds = ()
        elif mode == 'dynamic':
            f = self.val(fr, call['fn'])
            if f is None:
                raise PathEnd('panic', 'call of nil function')
            if isinstance(f, Poison):
                if self.init_mode:
                    self.set_result(fr, ins, POISON)
                    self.advance(fr)
                    return None
                raise EngineError('call of poisoned function value')
            fid = f.fn
            binds = f.binds
        elif mode == 'invoke':
            recv = self.val(fr, call['recv'])
            if recv is None:
                raise PathEnd('panic', 'method call on nil interface')
            if isinstance(recv, Poison):
                if self.init_mode:
                    self.set_result(fr, ins, POISON)
                    self.advance(fr)
                    return None
                raise EngineError('invoke on poisoned interface')
            fid = self.prog.method(recv.t, call['method'])
            if fid is None:
                raise EngineError('no method %s on %s' % (call['method'], recv.t.s))
            args = [recv.v] + args
            binds = ()
        else:
            raise EngineError('call mode ' + mode)
        return self.invoke(st, fr, ins, fid, args, binds)

    def set_result(self, fr, ins, v):
        if 'r' in ins and ins['op'] == 'Call':
            fr.regs[ins['r']] = v

    def invoke(self, st, fr, ins, fid, args, binds):
        if fid.startswith('builtin:'):
            v = self.builtin(st, fr, ins, fid[8:], args, None)
            self.set_result(fr, ins, v)
            self.advance(fr)
            return None
        name = fid.split('#')[0]
        if name.startswith('extern:'):
            name = name[7:]
        h = INTERCEPTS.get(name)
        if h is not None and name in STUBS:
            self.res.stubs.add(name)
        if h is None and (fid.startswith('extern:') or self.prog.funcs.get(fid, {}).get('extern') or 'blocks' not in self.prog.funcs.get(fid, {})):
            h = STUBS.get(name)
            if h is None:
                if getattr(self, 'init_mode', False):
                    self.set_result(fr, ins, POISON)
                    self.advance(fr)
                    return None
                raise EngineError('no model for external function %s (called from %s)' % (name, fr.fid))
            self.res.stubs.add(name)
        if h is not None:
            v = h(self, st, fr, ins, args)
            if isinstance(v, TailCall):   # the model continues in an interpreted function whose result is the call's result
                return self.invoke(st, fr, ins, v.fid, v.args, v.binds)
            if isinstance(v, ForkList):   # fork: list of (state, value)
                outs = []
                for (s2, val2) in v:
                    f2 = s2.frames[-1]
                    self.set_result(f2, ins, val2)
                    self.advance(f2)
                    outs.append(s2)
                if not outs:
                    raise PathEnd('infeasible')
                return outs
            self.set_result(fr, ins, v)
            self.advance(fr)
            return None
        fn = self.prog.funcs[fid]
        if self.init_mode and name.endswith('.init'):
            self.inits_run.add(fn.get('pkg'))
        if len(st.frames) > 200:
            raise EngineError('call depth exceeded')
        nf = Frame(fid, fn)
        for i, a in enumerate(args):
            nf.regs['p%d' % i] = a
        for i, b in enumerate(binds):
            nf.regs['fv%d' % i] = b
        nf.ret = ins
        if name in self.merge_funcs and ins['op'] == 'Call' and not self.init_mode:
            return self.merged_call(st, fr, ins, nf)
        st.frames.append(nf)
        return None

    def memo_key(self, v):
        """hashable key for a value made of scalars only (None if it holds references)."""
        if isinstance(v, bool):
            return ('b', v)
        if isinstance(v, int):
            return ('i', v)
        if isinstance(v, z3.ExprRef):
            return ('t', tid(v))
        if isinstance(v, FV):
            if fpops.is_conc(v):
                return ('f', v.w, fpops.bits_of_py(v.w, v.v))
            return ('ft', v.w, tid(v.v))
        if isinstance(v, (Agg, Tup)):
            ks = tuple(self.memo_key(x) for x in v)
            return None if any(k is None for k in ks) else ('a',) + ks
        if isinstance(v, Str):
            ks = tuple(self.memo_key(x) for x in v.b)
            return ('s',) + ks
        return None

    def merged_call(self, st, fr, ins, nf):
        key = None
        if nf.fid.split('#')[0] not in self.no_memo:
            ks = tuple(self.memo_key(nf.regs[k]) for k in sorted(nf.regs))
            if all(k is not None for k in ks):
                key = (nf.fid, ks)
                hit = st.callmemo.get(key)
                if hit is not None:
                    # same pure function, syntactically identical arguments, same path:
                    # same result (keeps relational comparisons syntactic)
                    fr.regs[ins['r']] = hit[0]
                    fr.ii += 1
                    return None
        r = self.merged_call2(st, fr, ins, nf)
        if r is None and key is not None and not getattr(self, '_last_call_wrote', True):
            st.callmemo[key] = (st.frames[-1].regs[ins['r']],)
        return r

    def merged_call2(self, st, fr, ins, nf):
        """explore the callee to completion from st and merge the resulting
        states into one (if-then-else over the callee's path conditions). Falls
        back to ordinary forking when the results cannot be merged."""
        sub = st.fork()
        saved_frames = st.frames
        saved_joins = st.joins
        sub.frames = [nf]
        sub.joins = []
        written_before = set(st.written)
        heap_ids_before = set(st.heap.keys())
        self._last_call_wrote = True
        base_len = len(st.pc)
        paths_before = self.res.paths
        ended_before = dict(self.res.ended)
        fin = self.run_to_end(sub)
        self.res.paths = paths_before   # sub-paths are not harness paths
        for k in list(self.res.ended):
            if k != 'panic':
                self.res.ended[k] = ended_before.get(k, 0)
        if not fin:
            raise PathEnd('infeasible')

        def as_value(vals):
            if len(vals) == 1:
                return vals[0]
            if len(vals) > 1:
                return Tup(vals)
            return None

        def adopt(f, value):
            f.joins = list(saved_joins)
            f.frames = [x.copy() for x in saved_frames]
            f2 = f.frames[-1]
            f2.regs[ins['r']] = value
            f2.ii += 1
            return f
        def wrote(fs):
            for f in fs:
                for o in f.written - written_before:
                    if o in heap_ids_before:
                        return True
            return False
        if len(fin) == 1:
            f = fin[0]
            self._last_call_wrote = wrote(fin)
            adopt(f, as_value(f.done))
            # continue in f: copy its contents into st (st is the object the caller loop holds)
            st.__dict__.update(f.__dict__)
            return None
        self._last_call_wrote = wrote(fin)
        try:
            merged = self.merge_states(st, fin, base_len, [as_value(f.done) for f in fin], self.T(ins['t']) if 't' in ins else None)
        except Unmergeable as e:
            self.res.notes.append('merge fallback (%s): %s' % (nf.fid, e))
            outs = [adopt(f, as_value(f.done)) for f in fin]
            self.res.forks += len(outs) - 1
            return outs
        mstate, mval = merged
        adopt(mstate, mval)
        st.__dict__.update(mstate.__dict__)
        self.res.merges += 1
        return None

    def merge_states(self, st, fin, base_len, values, rtype=None, pc_prefix=None):
        guards = []
        for f in fin:
            suffix = f.pc[base_len:]
            guards.append(b_and(*suffix) if suffix else True)
        first = fin[0]
        for f in fin[1:]:
            if f.counts != first.counts or f.choices != first.choices or f.labels != first.labels or len(f.notes) != len(first.notes):
                raise Unmergeable('harness-level state differs')
            if f.ro != first.ro or f.expect_panic != first.expect_panic:
                raise Unmergeable('monitor state differs')
        # value
        val = values[-1]
        for g, v in zip(reversed(guards[:-1]), reversed(values[:-1])):
            if v is None and val is None:
                continue
            val = self.ite_typed(g, v, val, rtype) if rtype is not None else self.ite(g, v, val)
        # heap
        heap = dict(first.heap)
        allids = set()
        for f in fin:
            allids.update(f.heap.keys())
        for oid in allids:
            objs = [f.heap.get(oid) for f in fin]
            present = [o for o in objs if o is not None]
            if len(present) < len(objs):
                # allocated on some paths only: private to those paths (a merged
                # value referring to it would have been rejected by ite)
                heap[oid] = present[0]
                continue
            o0 = objs[0]
            if all(o is o0 for o in objs[1:]):
                heap[oid] = o0
                continue
            n = len(o0)
            if any(len(o) != n for o in objs):
                raise Unmergeable('object size differs')
            out = list(objs[-1])
            for k in range(n):
                cell = objs[-1][k]
                for g, o in zip(reversed(guards[:-1]), reversed(objs[:-1])):
                    if o[k] is not cell:
                        cell = self.ite(g, o[k], cell, self.leaf_of(oid, k))
                out[k] = cell
            heap[oid] = out
        m = first
        m.heap = heap
        m.owned = set()
        m.pc = list(pc_prefix if pc_prefix is not None else st.pc[:base_len])
        disj = b_or(*guards)
        if disj is not True:
            # the guards of a complete case split are exhaustive: then nothing is
            # learnt and the path condition stays small
            d2 = self.simp(disj)
            if d2 is not True:
                ts = z3.Solver()
                ts.set('timeout', 2000)
                ts.add(z3.Not(disj))
                if ts.check() != z3.unsat:
                    m.pc.append(disj)
        nd = {}
        wr = set()
        conc = None
        for f in fin:
            nd.update(f.nondet)
            wr |= f.written
            conc = dict(f.conc) if conc is None else {k: v for k, v in conc.items() if f.conc.get(k) == v}
        m.nondet = nd
        m.written = wr
        common = dict(fin[0].lits)
        for f in fin[1:]:
            common = {k: v for k, v in common.items() if f.lits.get(k) == v}
        m.lits = common
        cm = dict(fin[0].callmemo)
        for f in fin[1:]:
            cm = {k: v for k, v in cm.items() if f.callmemo.get(k) is v}
        m.callmemo = cm
        m.conc = conc or {}
        m.steps = max(f.steps for f in fin)
        m.model = first.model
        return m, val

    def do_return(self, st, fr, vals):
        st.frames.pop()
        if fr.defers:
            raise EngineError('return with pending defers')
        if not st.frames:
            st.done = vals
            return 'done'
        caller = st.frames[-1]
        ins = fr.ret
        if ins is not None:
            if ins['op'] == 'Call':
                if len(vals) == 1:
                    caller.regs[ins['r']] = vals[0]
                elif len(vals) > 1:
                    caller.regs[ins['r']] = Tup(vals)
                else:
                    caller.regs[ins['r']] = None
                caller.ii += 1
            elif ins['op'] == 'RunDefers':
                pass  # re-executes RunDefers
            else:
                caller.ii += 1
        return None

    # ------------------------------------------------------------------ builtins
    def builtin(self, st, fr, ins, name, args, call):
        if name == 'len':
            x = args[0]
            if isinstance(x, Slice):
                return x.len
            if isinstance(x, Str):
                return len(x.b)
            if isinstance(x, MapRef):
                return len(st.heap[x.obj])
            if x is None:
                return 0
            raise EngineError('len of %r' % (x,))
        if name == 'cap':
            x = args[0]
            if isinstance(x, Slice):
                return x.cap
            raise EngineError('cap of %r' % (x,))
        if name == 'append':
            et = None
            if ins is not None and 't' in ins:
                su = self.U(self.T(ins['t']))
                if su.k == 'slice':
                    et = self.T(su.elem)
            return self.b_append(st, args[0], args[1], et)
        if name == 'copy':
            return self.b_copy(st, args[0], args[1])
        if name in ('print', 'println'):
            return None
        if name == 'ssa:wrapnilchk':
            if args[0] is None:
                raise PathEnd('panic', 'nil receiver')
            return args[0]
        if name == 'recover':
            return None
        if name == 'delete':
            m, k = args
            if m is None:
                return None
            ents = st.wobj(m.obj)
            for i, (kk, vv) in enumerate(ents):
                if self.conc_eq(kk, k):
                    del ents[i]
                    break
            return None
        raise EngineError('builtin ' + name)

    def slice_elems(self, st, s):
        """flat list of slot values of slice/string s (concrete length)."""
        if isinstance(s, Str):
            return list(s.b)
        if s.obj is None or s.len == 0:
            return []
        n = self.cint(st, s.len)
        slots = st.heap[s.obj]
        return slots[s.off:s.off + n * s.stride]

    def cint(self, st, v, what='length'):
        if isinstance(v, int):
            return v
        return self.concretize(st, v, what)

    def b_append(self, st, s, t, et=None):
        add = self.slice_elems(st, t)
        stride = s.stride
        if isinstance(t, Str):
            nadd = len(add)
        else:
            nadd = len(add) // stride if stride else self.cint(st, t.len)
        if nadd == 0:
            return s
        ln = self.cint(st, s.len)
        cp = self.cint(st, s.cap)
        if s.obj is not None and ln + nadd <= cp:
            self.check_ro(st, s.obj, 'append in place')
            st.written.add(s.obj)
            slots = st.wobj(s.obj)
            o = s.off + ln * stride
            slots[o:o + len(add)] = add
            return Slice(s.obj, s.off, ln + nadd, cp, stride)
        ncap = max(2 * cp, ln + nadd)
        if ncap < 8 and stride == 1:
            ncap = 8
        old = st.heap[s.obj][s.off:s.off + ln * stride] if s.obj is not None else []
        zero = self.elem_zero_for(s, add, stride)
        slots = list(old) + list(add) + zero * (ncap - ln - nadd)
        pat = self.leafs(et) if et is not None else (OBJLEAF.get(s.obj) if s.obj is not None else None)
        oid = self.new_obj(st, slots, 'append', pat)
        return Slice(oid, 0, ln + nadd, ncap, stride)

    def elem_zero_for(self, s, add, stride):
        # zero slots for one element, derived from the shape of existing values
        z = []
        for v in add[:stride]:
            z.append(self.zero_like(v))
        return z

    def zero_like(self, v):
        if isinstance(v, bool) or z3.is_bool(v):
            return False
        if isinstance(v, (int, z3.BitVecRef)):
            return 0
        if isinstance(v, FV):
            return FV(v.w, 0.0)
        if isinstance(v, Str):
            return Str()
        if isinstance(v, Slice):
            return Slice(None, 0, 0, 0, v.stride)
        return None

    def b_copy(self, st, dst, src):
        elems = self.slice_elems(st, src)
        stride = dst.stride
        nsrc = len(elems) if isinstance(src, Str) else (len(elems) // stride if stride else 0)
        n = min(self.cint(st, dst.len), nsrc)
        if n == 0:
            return 0
        self.check_ro(st, dst.obj, 'copy')
        st.written.add(dst.obj)
        slots = st.wobj(dst.obj)
        slots[dst.off:dst.off + n * stride] = elems[:n * stride]
        return n

    def conc_eq(self, a, b):
        r = self.eq_val(a, b)
        if isinstance(r, bool):
            return r
        r = self.simp(r)
        if isinstance(r, bool):
            return r
        raise EngineError('symbolic map key comparison')

    # ------------------------------------------------------------------ equality
    def eq_val(self, a, b):
        """Go == on two values of the same type -> bool / BoolRef."""
        if a is None or b is None:
            if a is None and b is None:
                return True
            o = b if a is None else a
            if isinstance(o, Slice):
                return o.obj is None
            return False
        if isinstance(a, Poison) or isinstance(b, Poison):
            raise EngineError('comparison of poisoned value')
        if isinstance(a, bool) and isinstance(b, bool):
            return a == b
        if isinstance(a, bool) or isinstance(b, bool) or z3.is_bool(a) or z3.is_bool(b):
            return b_term(a) == b_term(b)
        if isinstance(a, int) and isinstance(b, int):
            return a == b
        if isinstance(a, (int, z3.BitVecRef)) and isinstance(b, (int, z3.BitVecRef)):
            return a == b
        if isinstance(a, FV):
            return fpops.fcmp('==', a, b)
        if isinstance(a, Str):
            if len(a.b) != len(b.b):
                return False
            return b_and(*[self.eq_val(x, y) for x, y in zip(a.b, b.b)])
        if isinstance(a, (Agg, Tup)):
            return b_and(*[self.eq_val(x, y) for x, y in zip(a, b)])
        if isinstance(a, Ptr):
            if a.sym is not None or b.sym is not None:
                raise EngineError('comparison of symbolic pointers')
            return a.obj == b.obj and a.off == b.off
        if isinstance(a, Iface):
            if a.t is not b.t:
                return False
            return self.eq_val(a.v, b.v)
        if isinstance(a, Func):
            raise EngineError('func comparison')
        if isinstance(a, MapRef):
            return a.obj == b.obj
        if isinstance(a, Slice) and isinstance(b, Slice):
            # Go only compares slices with nil: one side is the typed nil constant
            if a.obj is None or b.obj is None:
                return a.obj is None and b.obj is None
        raise EngineError('eq of %r' % type(a).__name__)


class Unmergeable(Exception):
    pass


class _IntLeaf:
    bits = 64


INT = _IntLeaf()

HANDLERS = {}


def handler(op):
    def deco(f):
        HANDLERS[op] = f
        return f
    return deco


@handler('DebugRef')
def h_debugref(ex, st, fr, ins):
    fr.ii += 1


@handler('Alloc')
def h_alloc(ex, st, fr, ins):
    t = ex.T(ins['elem'])
    oid = ex.new_obj(st, list(ex.zero_slots(t)), ins.get('comment', ''), ex.leafs(t))
    fr.regs[ins['r']] = Ptr(oid, 0)
    fr.ii += 1


def int_binop(ex, st, tok, x, y, xt, yt, rt):
    bits, uns = xt.bits, xt.unsigned
    if isinstance(x, int) and isinstance(y, int):
        if tok == '+':
            r = x + y
        elif tok == '-':
            r = x - y
        elif tok == '*':
            r = x * y
        elif tok in ('/', '%'):
            if y == 0:
                raise PathEnd('panic', 'integer divide by zero')
            q = abs(x) // abs(y)
            if (x < 0) != (y < 0):
                q = -q
            r = q if tok == '/' else x - q * y
        elif tok == '&':
            r = x & y
        elif tok == '|':
            r = x | y
        elif tok == '^':
            r = x ^ y
        elif tok == '&^':
            r = x & ~y
        elif tok == '<<':
            if y < 0:
                raise PathEnd('panic', 'negative shift amount')
            r = 0 if y >= bits else x << y
        elif tok == '>>':
            if y < 0:
                raise PathEnd('panic', 'negative shift amount')
            r = (-1 if x < 0 else 0) if y >= bits else x >> y
        elif tok == '==':
            return x == y
        elif tok == '!=':
            return x != y
        elif tok == '<':
            return x < y
        elif tok == '<=':
            return x <= y
        elif tok == '>':
            return x > y
        elif tok == '>=':
            return x >= y
        else:
            raise EngineError('int op ' + tok)
        return wrap_int(r, bits, uns)
    if tok in ('<<', '>>'):
        ybits = yt.bits
        X = bv(x, bits)
        if isinstance(y, int):
            if y >= bits:
                if tok == '<<' or uns:
                    return 0
                return z3.If(X < 0, z3.BitVecVal(-1, bits), z3.BitVecVal(0, bits))
            Y = z3.BitVecVal(y, bits)
            if tok == '<<':
                return X << Y
            return z3.LShR(X, Y) if uns else X >> Y
        if not yt.unsigned:
            ex.require(st, y >= 0, 'negative shift amount')
        if ybits < bits:
            Y = z3.ZeroExt(bits - ybits, y)
            big = False
        elif ybits > bits:
            big = z3.UGE(y, bits)
            Y = z3.Extract(bits - 1, 0, y)
        else:
            Y = y
            big = False
        over = b_or(big, z3.UGE(Y, bits))
        if tok == '<<':
            return z3.If(over, z3.BitVecVal(0, bits), X << Y)
        if uns:
            return z3.If(over, z3.BitVecVal(0, bits), z3.LShR(X, Y))
        return z3.If(over, z3.If(X < 0, z3.BitVecVal(-1, bits), z3.BitVecVal(0, bits)), X >> Y)
    X, Y = bv(x, bits), bv(y, bits)
    if tok == '+':
        return X + Y
    if tok == '-':
        return X - Y
    if tok == '*':
        return X * Y
    if tok in ('/', '%'):
        if not isinstance(y, int):
            ex.require(st, Y != 0, 'integer divide by zero')
        elif y == 0:
            raise PathEnd('panic', 'integer divide by zero')
        if tok == '/':
            return z3.UDiv(X, Y) if uns else X / Y
        return z3.URem(X, Y) if uns else z3.SRem(X, Y)
    if tok == '&':
        return X & Y
    if tok == '|':
        return X | Y
    if tok == '^':
        return X ^ Y
    if tok == '&^':
        return X & ~Y
    if tok == '==':
        return X == Y
    if tok == '!=':
        return X != Y
    if tok == '<':
        return z3.ULT(X, Y) if uns else X < Y
    if tok == '<=':
        return z3.ULE(X, Y) if uns else X <= Y
    if tok == '>':
        return z3.UGT(X, Y) if uns else X > Y
    if tok == '>=':
        return z3.UGE(X, Y) if uns else X >= Y
    raise EngineError('int op ' + tok)


@handler('BinOp')
def h_binop(ex, st, fr, ins):
    x = ex.val(fr, ins['x'])
    y = ex.val(fr, ins['y'])
    if x is POISON or y is POISON:
        if getattr(ex, 'init_mode', False):
            fr.regs[ins['r']] = POISON
            fr.ii += 1
            return
        raise EngineError('poison operand')
    tok = ins['tok']
    xt = ex.U(ex.T(ins['xt']))
    if xt.k == 'basic' and xt.is_int:
        yt = ex.U(ex.T(ins['yt']))
        r = int_binop(ex, st, tok, x, y, xt, yt, None)
    elif xt.k == 'basic' and xt.is_float:
        if tok in ('+', '-', '*', '/'):
            r = fpops.fbin(tok, x, y)
        else:
            r = fpops.fcmp(tok, x, y)
    elif xt.k == 'basic' and xt.is_string:
        if tok == '+':
            r = Str(x.b + y.b)
        elif tok == '==':
            r = ex.eq_val(x, y)
        elif tok == '!=':
            r = b_not(ex.eq_val(x, y))
        else:
            if x.concrete() and y.concrete():
                a, b = bytes(x.b), bytes(y.b)
                r = {'<': a < b, '<=': a <= b, '>': a > b, '>=': a >= b}[tok]
            else:
                raise EngineError('symbolic string ordering')
    elif xt.k == 'basic' and xt.is_bool:
        if tok == '==':
            r = ex.eq_val(x, y)
        elif tok == '!=':
            r = b_not(ex.eq_val(x, y))
        else:
            raise EngineError('bool op ' + tok)
    else:
        if tok == '==':
            r = ex.eq_val(x, y)
        elif tok == '!=':
            r = b_not(ex.eq_val(x, y))
        else:
            raise EngineError('binop %s on %s' % (tok, xt.s))
    fr.regs[ins['r']] = r
    fr.ii += 1


@handler('UnOp')
def h_unop(ex, st, fr, ins):
    x = ex.val(fr, ins['x'])
    tok = ins['tok']
    if tok == '*':
        t = ex.T(ins['t'])
        fr.regs[ins['r']] = ex.load(st, x, t)
        fr.ii += 1
        return
    if x is POISON:
        if getattr(ex, 'init_mode', False):
            fr.regs[ins['r']] = POISON
            fr.ii += 1
            return
        raise EngineError('poison operand')
    xt = ex.U(ex.T(ins['xt']))
    if tok == '!':
        r = b_not(x)
    elif tok == '-':
        if xt.is_float:
            r = fpops.fneg(x)
        elif isinstance(x, int):
            r = wrap_int(-x, xt.bits, xt.unsigned)
        else:
            r = -x
    elif tok == '^':
        if isinstance(x, int):
            r = wrap_int(~x, xt.bits, xt.unsigned)
        else:
            r = ~x
    else:
        raise EngineError('unop ' + tok)
    fr.regs[ins['r']] = r
    fr.ii += 1


def convert(ex, st, x, xt, t):
    xu, u = ex.U(xt), ex.U(t)
    if xu.k == 'basic' and u.k == 'basic':
        if xu.is_int and u.is_int:
            if isinstance(x, int):
                return wrap_int(x, u.bits, u.unsigned)
            if u.bits < xu.bits:
                return z3.Extract(u.bits - 1, 0, x)
            if u.bits > xu.bits:
                return z3.ZeroExt(u.bits - xu.bits, x) if xu.unsigned else z3.SignExt(u.bits - xu.bits, x)
            return x
        if xu.is_int and u.is_float:
            return fpops.i2f(x, xu.bits, not xu.unsigned, u.bits)
        if xu.is_float and u.is_int:
            if fpops.is_real(x) and not fpops.is_conc(x):
                return ex.real_f2i(st, x)
            return fpops.f2i(x, u.bits, not u.unsigned)
        if xu.is_float and u.is_float:
            return fpops.fconv(x, u.bits)
        if xu.is_string and u.is_string:
            return x
        if xu.is_int and u.is_string:
            if isinstance(x, int):
                return Str(chr(x).encode('utf-8') if 0 <= x < 0x110000 else b'\xef\xbf\xbd')
            raise EngineError('string(symbolic int)')
    if xu.k == 'basic' and xu.is_string and u.k == 'slice':
        eu = ex.U(ex.T(u.elem))
        if eu.bits == 8:
            oid = ex.new_obj(st, list(x.b), '[]byte(string)', [eu])
            return Slice(oid, 0, len(x.b), len(x.b), 1)
        raise EngineError('[]rune(string)')
    if xu.k == 'slice' and u.k == 'basic' and u.is_string:
        return Str(ex.slice_elems(st, x))
    if xu.k == u.k:
        return x
    raise EngineError('convert %s -> %s' % (xt.s, t.s))


@handler('Convert')
def h_convert(ex, st, fr, ins):
    x = ex.val(fr, ins['x'])
    if x is POISON and getattr(ex, 'init_mode', False):
        fr.regs[ins['r']] = POISON
        fr.ii += 1
        return
    fr.regs[ins['r']] = convert(ex, st, x, ex.T(ins['xt']), ex.T(ins['t']))
    fr.ii += 1


@handler('ChangeType')
def h_changetype(ex, st, fr, ins):
    fr.regs[ins['r']] = ex.val(fr, ins['x'])
    fr.ii += 1


@handler('ChangeInterface')
def h_changeiface(ex, st, fr, ins):
    fr.regs[ins['r']] = ex.val(fr, ins['x'])
    fr.ii += 1


@handler('MakeInterface')
def h_makeiface(ex, st, fr, ins):
    fr.regs[ins['r']] = Iface(ex.T(ins['xt']), ex.val(fr, ins['x']))
    fr.ii += 1


@handler('MakeClosure')
def h_makeclosure(ex, st, fr, ins):
    f = ex.val(fr, ins['fn'])
    fr.regs[ins['r']] = Func(f.fn, [ex.val(fr, b) for b in (ins['bindings'] or [])])
    fr.ii += 1


@handler('Extract')
def h_extract(ex, st, fr, ins):
    x = ex.val(fr, ins['x'])
    if x is POISON:
        fr.regs[ins['r']] = POISON
    else:
        fr.regs[ins['r']] = x[ins['i']]
    fr.ii += 1


@handler('Field')
def h_field(ex, st, fr, ins):
    x = ex.val(fr, ins['x'])
    xt = ex.U(ex.T(ins['xt']))
    i = ins['i']
    ft = ex.T(xt.fields[i]['t'])
    off = xt.foffs[i]
    n = ex.prog.nslots(ft)
    if ex.is_agg(ft):
        fr.regs[ins['r']] = Agg(x[off:off + n])
    else:
        fr.regs[ins['r']] = x[off]
    fr.ii += 1


@handler('FieldAddr')
def h_fieldaddr(ex, st, fr, ins):
    x = ex.val(fr, ins['x'])
    if x is None:
        raise PathEnd('panic', 'nil pointer dereference (field)')
    if isinstance(x, Poison):
        raise EngineError('poisoned pointer')
    stt = ex.U(ex.T(ins['st']))
    fr.regs[ins['r']] = Ptr(x.obj, x.off + stt.foffs[ins['i']], x.sym)
    fr.ii += 1


def index_check(ex, st, idx, it, count, what='index out of range'):
    """returns python int index or BitVec term known to be in range."""
    if isinstance(idx, int):
        if isinstance(count, int):
            if idx < 0 or idx >= count:
                raise PathEnd('panic', what)
            return idx
        ex.require(st, z3.UGT(count, idx) if idx >= 0 else False, what)
        return idx
    ts = z3.simplify(idx)
    if z3.is_bv_value(ts):
        v = ts.as_long()
        if not it.unsigned:
            v = wrap_int(v, it.bits, False)
        return index_check(ex, st, v, it, count, what)
    key = tid(idx)
    if key in st.conc:
        return index_check(ex, st, st.conc[key], it, count, what)
    if isinstance(count, int):
        if ubound(ts) < count:
            return idx
        if it.unsigned:
            cond = z3.ULT(idx, count)
        else:
            cond = z3.And(idx >= 0, idx < count)
    else:
        cnt = count
        if cnt.size() != idx.size():
            raise EngineError('index/len width mismatch')
        cond = z3.ULT(idx, cnt) if it.unsigned else z3.And(idx >= 0, idx < cnt)
    ex.require(st, cond, what)
    return idx


@handler('IndexAddr')
def h_indexaddr(ex, st, fr, ins):
    x = ex.val(fr, ins['x'])
    idx = ex.val(fr, ins['i'])
    xt = ex.U(ex.T(ins['xt']))
    it = ex.U(ex.T(ins['it']))
    if xt.k == 'ptr':
        if x is None:
            raise PathEnd('panic', 'nil pointer dereference (index)')
        at = ex.U(ex.T(xt.elem))
        stride = ex.prog.nslots(ex.T(at.elem))
        count = at.len
        base_obj, base_off, sym = x.obj, x.off, x.sym
    else:
        if not isinstance(x, Slice):
            raise EngineError('IndexAddr on %r' % (x,))
        stride = x.stride
        count = x.len
        if x.obj is None:
            raise PathEnd('panic', 'index out of range (nil slice)')
        base_obj, base_off, sym = x.obj, x.off, None
    if not isinstance(count, int):
        count = ex.cint(st, count)
    i = index_check(ex, st, idx, it, count)
    if isinstance(i, int):
        fr.regs[ins['r']] = Ptr(base_obj, base_off + i * stride, sym)
    else:
        if count == 1:
            fr.regs[ins['r']] = Ptr(base_obj, base_off, sym)
        else:
            fr.regs[ins['r']] = Ptr(base_obj, base_off, (sym or ()) + ((i, stride, count),))
    fr.ii += 1


@handler('Index')
def h_index(ex, st, fr, ins):
    x = ex.val(fr, ins['x'])
    idx = ex.val(fr, ins['i'])
    xt = ex.U(ex.T(ins['xt']))
    it = ex.U(ex.T(ins['it']))
    if isinstance(x, Str):
        i = index_check(ex, st, idx, it, len(x.b))
        if isinstance(i, int):
            r = x.b[i]
        else:
            r = ex.ite_chain([(i == k, x.b[k]) for k in range(len(x.b))], U8)
    else:
        rt = ex.T(ins['t'])
        stride = ex.prog.nslots(rt)
        count = xt.len
        i = index_check(ex, st, idx, it, count)
        agg = ex.is_agg(rt)
        if isinstance(i, int):
            r = Agg(x[i * stride:(i + 1) * stride]) if agg else x[i * stride]
        else:
            leafs = ex.leafs(rt)
            out = []
            for j in range(stride):
                out.append(ex.ite_chain([(i == k, x[k * stride + j]) for k in range(count)], leafs[j]))
            r = Agg(out) if agg else out[0]
    fr.regs[ins['r']] = r
    fr.ii += 1


class _U8Leaf:
    bits = 8


U8 = _U8Leaf()


@handler('Lookup')
def h_lookup(ex, st, fr, ins):
    x = ex.val(fr, ins['x'])
    idx = ex.val(fr, ins['i'])
    if isinstance(x, Str):
        i = index_check(ex, st, idx, INTT, len(x.b))
        if isinstance(i, int):
            r = x.b[i]
        else:
            r = ex.ite_chain([(i == k, x.b[k]) for k in range(len(x.b))], U8)
        fr.regs[ins['r']] = r
        fr.ii += 1
        return
    # map
    rt = ex.T(ins['t'])
    found = None
    if x is not None:
        for (k, v) in st.heap[x.obj]:
            if ex.conc_eq(k, idx):
                found = v
                break
    if ins.get('commaok'):
        vt = ex.T(ex.U(rt).elems[0])
        fr.regs[ins['r']] = Tup([found if found is not None else ex.zero_value(vt), found is not None])
    else:
        fr.regs[ins['r']] = found if found is not None else ex.zero_value(rt)
    fr.ii += 1


class _IntT:
    bits = 64
    unsigned = False


INTT = _IntT()


@handler('MakeMap')
def h_makemap(ex, st, fr, ins):
    oid = ex.new_obj(st, [], 'map')
    fr.regs[ins['r']] = MapRef(oid)
    fr.ii += 1


@handler('MapUpdate')
def h_mapupdate(ex, st, fr, ins):
    m = ex.val(fr, ins['m'])
    k = ex.val(fr, ins['key'])
    v = ex.val(fr, ins['val'])
    if m is None:
        raise PathEnd('panic', 'assignment to entry in nil map')
    ex.check_ro(st, m.obj, 'map update')
    st.written.add(m.obj)
    ents = st.wobj(m.obj)
    for i, (kk, vv) in enumerate(ents):
        if ex.conc_eq(kk, k):
            ents[i] = (kk, v)
            break
    else:
        ents.append((k, v))
    fr.ii += 1


@handler('Range')
def h_range(ex, st, fr, ins):
    x = ex.val(fr, ins['x'])
    oid = ex.new_obj(st, [0], 'range iterator')
    fr.regs[ins['r']] = ('iter', oid, x)
    fr.ii += 1


@handler('Next')
def h_next(ex, st, fr, ins):
    _, oid, x = ex.val(fr, ins['x'])
    pos = st.heap[oid][0]
    if ins['isstring']:
        b = x.b
        if pos >= len(b):
            fr.regs[ins['r']] = Tup([False, 0, 0])
        else:
            c = b[pos]
            if not isinstance(c, int):
                raise EngineError('range over symbolic string')
            if c < 0x80:
                r, n = c, 1
            else:
                s = bytes(b[pos:pos + 4]).decode('utf-8', 'replace')
                r = ord(s[0])
                n = len(s[0].encode('utf-8'))
            st.wobj(oid)[0] = pos + n
            fr.regs[ins['r']] = Tup([True, pos, r])
    else:
        ents = st.heap[x.obj] if x is not None else []
        if pos >= len(ents):
            fr.regs[ins['r']] = Tup([False, None, None])
        else:
            st.wobj(oid)[0] = pos + 1
            fr.regs[ins['r']] = Tup([True, ents[pos][0], ents[pos][1]])
            ex.res.notes.append('map iteration in insertion order (%s)' % fr.fid)
    fr.ii += 1


@handler('MakeSlice')
def h_makeslice(ex, st, fr, ins):
    ln = ex.cint(st, ex.val(fr, ins['len']), 'make len')
    cp = ex.cint(st, ex.val(fr, ins['cap']), 'make cap')
    if ln < 0 or cp < ln:
        raise PathEnd('panic', 'makeslice: len out of range')
    t = ex.U(ex.T(ins['t']))
    et = ex.T(t.elem)
    z = list(ex.zero_slots(et))
    oid = ex.new_obj(st, z * cp, 'make', ex.leafs(et))
    fr.regs[ins['r']] = Slice(oid, 0, ln, cp, len(z))
    fr.ii += 1


@handler('Slice')
def h_slice(ex, st, fr, ins):
    x = ex.val(fr, ins['x'])
    xt = ex.U(ex.T(ins['xt']))
    low = ex.val(fr, ins['low']) if ins['low'] is not None else None
    high = ex.val(fr, ins['high']) if ins['high'] is not None else None
    mx = ex.val(fr, ins['max']) if ins['max'] is not None else None
    # symbolic bounds: first the bounds check against the (concrete) capacity as a panic
    # obligation, then the values that remain are enumerated
    if isinstance(x, Str):
        cap0 = len(x.b)
    elif xt.k == 'ptr':
        cap0 = ex.U(ex.T(xt.elem)).len if x is not None else 0
    else:
        cap0 = ex.cint(st, x.cap) if x.obj is not None else 0
    its = ins.get('its') or [None, None, None]

    def bounded(v, k, what):
        if v is None or isinstance(v, int):
            return v
        if tid(v) not in st.conc and its[k] is not None:
            it = ex.U(ex.T(its[k]))
            c = z3.BitVecVal(cap0, v.size())
            ex.require(st, z3.ULE(v, c) if it.unsigned else z3.And(v >= 0, v <= c), 'slice bounds out of range')
        return ex.cint(st, v, what)
    low = bounded(low, 0, 'slice low') if low is not None else 0
    if high is not None:
        high = bounded(high, 1, 'slice high')
    if mx is not None:
        mx = bounded(mx, 2, 'slice max')
    if isinstance(x, Str):
        if high is None:
            high = len(x.b)
        if not (0 <= low <= high <= len(x.b)):
            raise PathEnd('panic', 'slice bounds out of range (string)')
        fr.regs[ins['r']] = Str(x.b[low:high])
        fr.ii += 1
        return
    if xt.k == 'ptr':
        if x is None:
            raise PathEnd('panic', 'nil pointer dereference (slice)')
        at = ex.U(ex.T(xt.elem))
        stride = ex.prog.nslots(ex.T(at.elem))
        obj, off, ln, cp = x.obj, x.off, at.len, at.len
        if x.sym is not None:
            raise EngineError('slice of symbolic array pointer')
    else:
        stride = x.stride
        obj, off = x.obj, x.off
        ln, cp = ex.cint(st, x.len), ex.cint(st, x.cap)
    if high is None:
        high = ln
    if mx is None:
        mx = cp
    if not (0 <= low <= high <= mx <= cp):
        raise PathEnd('panic', 'slice bounds out of range [%d:%d:%d] with capacity %d' % (low, high, mx, cp))
    if obj is None:
        fr.regs[ins['r']] = Slice(None, 0, 0, 0, stride)
    else:
        fr.regs[ins['r']] = Slice(obj, off + low * stride, high - low, mx - low, stride)
    fr.ii += 1


@handler('Store')
def h_store(ex, st, fr, ins):
    addr = ex.val(fr, ins['addr'])
    v = ex.val(fr, ins['val'])
    if getattr(ex, 'init_mode', False) and isinstance(addr, Poison):
        fr.ii += 1
        return
    ex.store(st, addr, v)
    fr.ii += 1


@handler('Phi')
def h_phi(ex, st, fr, ins):
    raise EngineError('phi reached directly')


@handler('Jump')
def h_jump(ex, st, fr, ins):
    ex.goto(st, fr, fr.blocks[fr.bi]['succs'][0])


@handler('If')
def h_if(ex, st, fr, ins):
    c = ex.val(fr, ins['x'])
    succs = fr.blocks[fr.bi]['succs']
    base_len = len(st.pc)
    ifblock = fr.bi
    depth = len(st.frames)
    outs = ex.branch(st, c)
    res = []
    J = None
    if len(outs) == 2 and ex.ifconv and not ex.init_mode:
        J = ex.ipdoms(fr.fn)[ifblock]
        if J is not None and not ex.region_ok(fr.fn, ifblock, J, ex.opts.get('join_region', 6)):
            J = None
    if J is None:
        for (s2, b) in outs:
            f2 = s2.frames[-1]
            ex.goto(s2, f2, succs[0] if b else succs[1])
            res.append(s2)
        if len(res) == 1 and res[0] is st:
            return None
        return res
    # if-conversion: run both sides to the join block and merge there
    if ex.trace:
        print('JOINDBG ifconv at', fr.fid, ifblock, 'J', J, 'joins', st.joins, [id(s2) for s2, _ in outs], file=sys.stderr)
    starts = []
    joined = []
    tok = (depth, J, next(_objctr))
    for (s2, b) in outs:
        f2 = s2.frames[-1]
        s2.joins.append(tok)
        try:
            ex.goto(s2, f2, succs[0] if b else succs[1])
            s2.joins.pop()
            starts.append(s2)
        except JoinReached:
            s2.joins.pop()
            joined.append(s2)
    ex._join_ctx = '%s block %d' % (fr.fid, ifblock)
    j2, escaped = ex.explore_to_join(starts, depth, J)
    joined.extend(j2)
    leftover = ex._join_leftover
    ex._join_leftover = []
    if leftover:
        ex.res.notes.append('if-conversion budget exceeded in %s: continued as ordinary forks' % fr.fid)
        for s2 in joined:
            s2.at_join = (depth, J)
        allst = joined + leftover
        ex.res.forks += len(allst) - 1
        if any(s2 is st for s2 in allst):
            allst = [st] + [s2 for s2 in allst if s2 is not st]
        else:
            st.__dict__.update(allst[0].__dict__)
            allst[0] = st
        return allst
    out_states = [s for (_, s) in escaped]
    if escaped:
        raise EngineError('path left the function inside an if-conversion region (%s)' % fr.fid)
    if not joined:
        raise PathEnd('infeasible')
    if len(joined) == 1:
        m = joined[0]
    else:
        try:
            m = ex.merge_at_join(base_len, joined)
            ex.res.merges += 1
        except Unmergeable as e:
            ex.res.notes.append('if-conversion fallback (%s block %d): %s' % (fr.fid, ifblock, e))
            ex.res.forks += len(joined) - 1
            for s2 in joined:
                s2.at_join = (depth, J)
            # the caller's loop holds st: make sure it is the first successor
            if any(s2 is st for s2 in joined):
                joined = [st] + [s2 for s2 in joined if s2 is not st]
            else:
                st.__dict__.update(joined[0].__dict__)
                joined[0] = st
            return joined
    # the caller's loop holds st: continue in it
    if ex.trace:
        print('JOINDBG merged at', fr.fid, ifblock, 'J', J, 'm.joins', m.joins, 'st.joins', st.joins, id(st), id(m), file=sys.stderr)
    st.__dict__.update(m.__dict__)
    if st.joins and st.joins[-1][0] == depth and st.joins[-1][1] == J:
        # an enclosing if-conversion waits at the same join block
        raise JoinReached()
    return None


@handler('Return')
def h_return(ex, st, fr, ins):
    vals = [ex.val(fr, r) for r in (ins['results'] or [])]
    return ex.do_return(st, fr, vals)


@handler('Panic')
def h_panic(ex, st, fr, ins):
    x = ex.val(fr, ins['x'])
    msg = 'panic'
    if isinstance(x, Iface) and isinstance(x.v, Str) and x.v.concrete():
        msg = 'panic: ' + x.v.py()
    raise PathEnd('panic', msg)


@handler('Call')
def h_call(ex, st, fr, ins):
    return ex.do_call(st, fr, ins, ins['call'])


@handler('Defer')
def h_defer(ex, st, fr, ins):
    call = ins['call']
    args = [ex.val(fr, a) for a in (call['args'] or [])]
    mode = call['mode']
    if mode == 'static':
        fr.defers.append((call['fn']['id'], args, ()))
    elif mode == 'dynamic':
        f = ex.val(fr, call['fn'])
        fr.defers.append((f.fn, args, f.binds))
    elif mode == 'builtin':
        fr.defers.append(('builtin:' + call['name'], args, ()))
    else:
        recv = ex.val(fr, call['recv'])
        fid = ex.prog.method(recv.t, call['method'])
        fr.defers.append((fid, [recv.v] + args, ()))
    fr.ii += 1


@handler('RunDefers')
def h_rundefers(ex, st, fr, ins):
    if not fr.defers:
        fr.ii += 1
        return None
    fid, args, binds = fr.defers.pop()
    r = ex.invoke(st, fr, ins, fid, args, binds)
    # invoke advanced fr.ii for intercepted/builtin calls: undo (RunDefers re-executes)
    if st.frames[-1] is fr:
        fr.ii -= 1
    return r


@handler('TypeAssert')
def h_typeassert(ex, st, fr, ins):
    x = ex.val(fr, ins['x'])
    at = ex.T(ins['at'])
    au = ex.U(at)
    ok = False
    val = None
    if isinstance(x, Poison):
        raise EngineError('type assert on poison')
    if x is not None:
        if au.k == 'iface':
            ms = x.t.mset or {}
            ok = all(m in ms for m in (au.methods or []))
            val = x
        else:
            ok = x.t.id == at.id
            val = x.v
    if ins.get('commaok'):
        if not ok:
            val = None if au.k == 'iface' else ex.zero_value(at)
        fr.regs[ins['r']] = Tup([val, ok])
    else:
        if not ok:
            raise PathEnd('panic', 'interface conversion failed (%s)' % at.s)
        fr.regs[ins['r']] = val
    fr.ii += 1
