"""Loader for the JSON written by tools/ssaexport: types, functions, globals."""
import json


class Type:
    __slots__ = ('id', 'k', 's', 'name', 'bits', 'is_int', 'unsigned', 'is_float', 'is_bool',
                 'is_string', 'elem', 'len', 'fields', 'elems', 'under', 'methods', 'mset',
                 'key', 'params', 'results', 'variadic', 'nslots', 'foffs', '_u')

    def __init__(self, i, j):
        self.id = i
        self.k = j['k']
        self.s = j.get('s', '')
        self.name = j.get('name')
        self.bits = j.get('bits', 0)
        self.is_int = j.get('int', False)
        self.unsigned = j.get('unsigned', False)
        self.is_float = j.get('float', False)
        self.is_bool = j.get('bool', False)
        self.is_string = j.get('string', False)
        self.elem = j.get('elem')
        self.len = j.get('len')
        self.fields = j.get('fields')
        self.elems = j.get('elems')
        self.under = j.get('under')
        self.methods = j.get('methods')
        self.mset = j.get('mset')
        self.key = j.get('key')
        self.params = j.get('params')
        self.results = j.get('results')
        self.variadic = j.get('variadic')
        self.nslots = None
        self.foffs = None
        self._u = None

    def __repr__(self):
        return 'T<%s>' % self.s


class Program:
    def __init__(self, path):
        with open(path) as f:
            d = json.load(f)
        self.types = [Type(i, j) for i, j in enumerate(d['types'])]
        self.funcs = d['funcs']
        self.globals = d['globals']
        self.inits = d['inits']
        self.pkgs = d.get('pkgs', {})
        for t in self.types:
            self.under(t)
        for t in self.types:
            self.nslots(t)
        # pre-index instructions
        for fid, f in self.funcs.items():
            f['id'] = fid
            if 'blocks' in f and f['blocks']:
                for b in f['blocks']:
                    b['succs'] = b.get('succs') or []
                    b['preds'] = b.get('preds') or []

    def T(self, i):
        return self.types[i]

    def under(self, t):
        """underlying type (resolving named)."""
        if t._u is not None:
            return t._u
        u = t
        while u.k == 'named':
            u = self.types[u.under]
        t._u = u
        return u

    def nslots(self, t):
        if t.nslots is not None:
            return t.nslots
        u = self.under(t)
        if u is not t:
            n = self.nslots(u)
            t.nslots = n
            t.foffs = u.foffs
            return n
        if t.k == 'array':
            n = t.len * self.nslots(self.types[t.elem])
        elif t.k == 'struct':
            n = 0
            offs = []
            for f in (t.fields or []):
                offs.append(n)
                n += self.nslots(self.types[f['t']])
            t.foffs = offs
        elif t.k == 'tuple':
            n = 1
        else:
            n = 1
        t.nslots = n
        return n

    def leaf_types(self, t):
        """list of leaf (scalar) types for each slot of t, in slot order."""
        u = self.under(t)
        if u.k == 'array':
            e = self.leaf_types(self.types[u.elem])
            return e * u.len
        if u.k == 'struct':
            out = []
            for f in (u.fields or []):
                out.extend(self.leaf_types(self.types[f['t']]))
            return out
        return [u]

    def method(self, t, name):
        """function id implementing method name for dynamic type t, or None."""
        if t.mset and name in t.mset:
            return t.mset[name]
        return None
