"""Discharging obligations: in-process z3 first, then a one-shot portfolio of
external solvers (z3 4.8.12, z3 5.1, cvc5 bit-blast, cvc5 bv-as-int)."""
import os
import re
import subprocess
import tempfile
import time

import z3

SOLVERS = [
    ('z3-4.8.12', lambda f, t: ['z3', '-T:%d' % t, f]),
    ('z3-5.1', lambda f, t: ['z3-new', '-T:%d' % t, f]),
    ('cvc5', lambda f, t: ['cvc5', '--tlimit=%d' % (t * 1000), '--produce-models', f]),
    ('cvc5-bvint', lambda f, t: ['cvc5', '--tlimit=%d' % (t * 1000), '--produce-models', '--solve-bv-as-int=sum', f]),
]


def to_smt2(assertions, getvals):
    s = z3.Solver()
    for a in assertions:
        s.add(a)
    txt = s.to_smt2()
    txt = txt.replace('(check-sat)', '')
    # z3-internal names for division by a non-zero numeral: same meaning as the standard operators there
    for op in ('bvudiv', 'bvurem', 'bvsdiv', 'bvsrem', 'bvsmod'):
        txt = txt.replace('(%s_i ' % op, '(%s ' % op)
    out = ['(set-logic ALL)', '(set-option :produce-models true)', txt, '(check-sat)']
    declared = set(re.findall(r'\(declare-fun\s+(\|[^|]*\||[^\s()]+)', txt)) | set(re.findall(r'\(declare-const\s+(\|[^|]*\||[^\s()]+)', txt))
    getvals = [g for g in getvals if g in declared]
    if getvals:
        out.append('(get-value (%s))' % ' '.join(getvals))
    return '\n'.join(out) + '\n'


def has_fp(assertions):
    # cheap textual test
    for a in assertions:
        if 'fp.' in a.sexpr() or 'to_fp' in a.sexpr():
            return True
    return False


def parse_values(text):
    """parse (get-value) output of BitVec values: ((name #x..) (name #b..))"""
    vals = {}
    for m in re.finditer(r'\(\s*(\|[^|]*\||[^\s()]+)\s+(#x[0-9a-fA-F]+|#b[01]+|\(_ bv(\d+) \d+\))\s*\)', text):
        name = m.group(1)
        if name.startswith('|'):
            name = name[1:-1]
        v = m.group(2)
        if v.startswith('#x'):
            vals[name] = int(v[2:], 16)
        elif v.startswith('#b'):
            vals[name] = int(v[2:], 2)
        else:
            vals[name] = int(m.group(3))
    return vals


def portfolio(smt2, timeout_s, solvers=None, workdir=None):
    """run the solvers in parallel on the query; first sat/unsat wins.
    returns (verdict, values, solver name, per-solver results)."""
    fd, path = tempfile.mkstemp(suffix='.smt2', dir=workdir)
    with os.fdopen(fd, 'w') as f:
        f.write(smt2)
    procs = []
    for name, mk in SOLVERS:
        if solvers and name not in solvers:
            continue
        try:
            p = subprocess.Popen(mk(path, timeout_s), stdout=subprocess.PIPE, stderr=subprocess.STDOUT, text=True)
            procs.append((name, p))
        except OSError:
            pass
    t0 = time.time()
    verdict, values, winner = 'unknown', {}, None
    results = {}
    pending = dict(procs)
    while pending and time.time() - t0 < timeout_s + 5:
        for name, p in list(pending.items()):
            if p.poll() is None:
                continue
            out = p.stdout.read()
            del pending[name]
            first = out.strip().split('\n')[0].strip() if out.strip() else ''
            if '(error' in out and first not in ('sat', 'unsat'):
                results[name] = 'error'
                continue
            if '(error' in out and 'get-value' not in out and first in ('sat', 'unsat'):
                # an error before the verdict makes the verdict untrustworthy
                if out.find('(error') < out.find(first):
                    results[name] = 'error'
                    continue
            if first in ('sat', 'unsat'):
                results[name] = first
                if winner is None:
                    verdict, winner = first, name
                    if first == 'sat':
                        values = parse_values(out)
            else:
                results[name] = 'unknown'
        if winner:
            break
        time.sleep(0.02)
    for name, p in pending.items():
        try:
            p.kill()
        except OSError:
            pass
        results.setdefault(name, 'killed')
    for name, p in procs:
        try:
            p.wait(timeout=2)
        except Exception:
            pass
    try:
        os.unlink(path)
    except OSError:
        pass
    return verdict, values, winner, results


def model_values(model, nondet):
    vals = {}
    for k, (kind, bits, term) in nondet.items():
        v = model.eval(term, model_completion=True)
        if kind == 'real':
            # nearest float of the declared width, as IEEE bits (replayable)
            try:
                if z3.is_rational_value(v):
                    x = float(v.as_fraction())
                else:
                    x = float(v.approx(30).as_fraction())
            except Exception:
                x = 0.0
            import fpops as _fp
            vals[k] = _fp.bits_of_py(bits, _fp.rw(bits, x))
        else:
            vals[k] = v.as_long()
    return vals


def solve(pc, neg, nondet, inproc_ms=10000, ext_s=60, solvers=None, workdir=None, force_ext=False):
    """decide pc /\\ neg. returns dict(verdict, values, solver, time)."""
    assertions = list(pc)
    if neg is not None:
        assertions.append(neg)
    t0 = time.time()
    if not force_ext:
        s = z3.Solver()
        s.set('timeout', inproc_ms)
        for a in assertions:
            s.add(a)
        r = s.check()
        if r == z3.unsat:
            return dict(verdict='unsat', values={}, solver='z3py-5.1', time=time.time() - t0)
        if r == z3.sat:
            return dict(verdict='sat', values=model_values(s.model(), nondet), solver='z3py-5.1', time=time.time() - t0)
    names = [k for k, (kind, bits, term) in nondet.items() if kind != 'real']
    getvals = ['|%s|' % n if re.search(r'[^A-Za-z0-9_.]', n) else n for n in names]
    smt2 = to_smt2(assertions, getvals)
    verdict, values, winner, results = portfolio(smt2, ext_s, solvers, workdir)
    return dict(verdict=verdict, values=values, solver=winner or 'portfolio', time=time.time() - t0, results=results)
