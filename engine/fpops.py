"""Floating point values and operations in the three readings.

B (bit exact): python floats when concrete, z3 FloatingPoint terms otherwise.
X (exact real) / R (rounded real): z3 Real terms; R adds a fresh relative error
per rounding operation (constraints are appended to CTX.pending and drained
into the path condition by the executor).
"""
import math
import struct
from fractions import Fraction

import z3

F32 = z3.Float32()
F64 = z3.Float64()
RNE = z3.RNE()
RTZ = z3.RTZ()
RTN = z3.RTN()
RTP = z3.RTP()


class Ctx:
    def __init__(self):
        self.mode = 'B'        # reading for *fresh* nondet floats: B, X or R
        self.pending = []      # side constraints produced by operations
        self.assumptions = set()
        self.counter = 0
        self.uf = {}
        self.range_checks = []   # (exact real result, width) of rounded operations (R reading)

    def fresh(self, prefix, sort):
        self.counter += 1
        return z3.Const('%s!%d' % (prefix, self.counter), sort)


CTX = Ctx()


class EngineError(Exception):
    pass


class FV:
    __slots__ = ('w', 'v', 'bits')

    def __init__(self, w, v, bits=None):
        self.w = w
        self.v = v
        self.bits = bits

    def __repr__(self):
        return 'FV%d(%r)' % (self.w, self.v)


def sort_of(w):
    return F32 if w == 32 else F64


def r32(x):
    if x != x or x in (math.inf, -math.inf):
        return x
    try:
        return struct.unpack('<f', struct.pack('<f', x))[0]
    except OverflowError:
        return math.copysign(math.inf, x)


def rw(w, x):
    return r32(x) if w == 32 else x


def bits_of_py(w, x):
    if w == 32:
        return struct.unpack('<I', struct.pack('<f', x))[0]
    return struct.unpack('<Q', struct.pack('<d', x))[0]


def py_of_bits(w, b):
    if w == 32:
        return struct.unpack('<f', struct.pack('<I', b & 0xffffffff))[0]
    return struct.unpack('<d', struct.pack('<Q', b & 0xffffffffffffffff))[0]


def fconst_bits(w, b):
    return FV(w, py_of_bits(w, b), b)


def fconst(w, x):
    return FV(w, rw(w, float(x)))


def is_conc(a):
    return isinstance(a.v, float)


def is_real(a):
    return isinstance(a.v, z3.ArithRef)


def fpval(w, x):
    """exact z3 FP numeral for python float x of width w."""
    if x != x:
        return z3.fpNaN(sort_of(w))
    if x == math.inf:
        return z3.fpPlusInfinity(sort_of(w))
    if x == -math.inf:
        return z3.fpMinusInfinity(sort_of(w))
    b = bits_of_py(w, x)
    if w == 32:
        return z3.fpFP(z3.BitVecVal(b >> 31, 1), z3.BitVecVal((b >> 23) & 0xff, 8), z3.BitVecVal(b & 0x7fffff, 23))
    return z3.fpFP(z3.BitVecVal(b >> 63, 1), z3.BitVecVal((b >> 52) & 0x7ff, 11), z3.BitVecVal(b & ((1 << 52) - 1), 52))


def realval(x):
    if x != x or x in (math.inf, -math.inf):
        raise EngineError('non-finite constant in real reading')
    n, d = x.as_integer_ratio()
    return z3.RealVal(n) / z3.RealVal(d) if d != 1 else z3.RealVal(n)


def term(a):
    """z3 term for a (FP sort, or Real when a is in a real reading)."""
    if isinstance(a.v, float):
        return fpval(a.w, a.v)
    return a.v


def _coerce(a, b):
    """return (mode, ta, tb): mode 'c' concrete, 'f' FP, 'r' real."""
    ac, bc = isinstance(a.v, float), isinstance(b.v, float)
    if ac and bc:
        return 'c', a.v, b.v
    if is_real(a) or is_real(b):
        ta = realval(a.v) if ac else a.v
        tb = realval(b.v) if bc else b.v
        if not (z3.is_real(ta) and z3.is_real(tb)):
            raise EngineError('mixing FP and real readings')
        return 'r', ta, tb
    return 'f', term(a), term(b)


def _round_real(t, w):
    """apply the reading's rounding to exact real t."""
    if CTX.mode != 'R':
        return t
    u = 2.0 ** -24 if w == 32 else 2.0 ** -53
    CTX.range_checks.append((t, w))
    d = CTX.fresh('delta', z3.RealSort())
    ur = realval(u)
    CTX.pending.append(z3.And(d >= -ur, d <= ur))
    CTX.assumptions.add('rounded-real reading: each float operation is exact*(1+d), |d|<=2^-24 (float32) / 2^-53 (float64); '
                        'no overflow/underflow (inputs range-restricted by the harness)')
    return t * (1 + d)


def fbin(op, a, b):
    w = a.w
    mode, x, y = _coerce(a, b)
    if mode == 'c':
        try:
            if op == '+':
                r = x + y
            elif op == '-':
                r = x - y
            elif op == '*':
                r = x * y
            elif op == '/':
                if y == 0:
                    if x != x or x == 0:
                        r = math.nan
                    else:
                        neg = (math.copysign(1, x) < 0) != (math.copysign(1, y) < 0)
                        r = -math.inf if neg else math.inf
                else:
                    r = x / y
            else:
                raise EngineError('float op ' + op)
        except OverflowError:
            # python raises on some overflows of float arithmetic (e.g. huge * huge never does, but be safe)
            r = math.inf
        return FV(w, rw(w, r))
    if mode == 'r':
        if op == '+':
            r = x + y
        elif op == '-':
            r = x - y
        elif op == '*':
            r = x * y
        elif op == '/':
            CTX.pending.append(y != 0)
            CTX.assumptions.add('real reading: divisors are non-zero')
            r = x / y
        else:
            raise EngineError('float op ' + op)
        return FV(w, _round_real(r, w))
    if op == '+':
        r = z3.fpAdd(RNE, x, y)
    elif op == '-':
        r = z3.fpSub(RNE, x, y)
    elif op == '*':
        r = z3.fpMul(RNE, x, y)
    elif op == '/':
        r = z3.fpDiv(RNE, x, y)
    else:
        raise EngineError('float op ' + op)
    return FV(w, r)


def fcmp(op, a, b):
    mode, x, y = _coerce(a, b)
    if mode == 'c':
        return {'==': x == y, '!=': x != y, '<': x < y, '<=': x <= y, '>': x > y, '>=': x >= y}[op]
    if mode == 'r':
        return {'==': x == y, '!=': x != y, '<': x < y, '<=': x <= y, '>': x > y, '>=': x >= y}[op]
    if op == '==':
        return z3.fpEQ(x, y)
    if op == '!=':
        return z3.Not(z3.fpEQ(x, y))
    if op == '<':
        return z3.fpLT(x, y)
    if op == '<=':
        return z3.fpLEQ(x, y)
    if op == '>':
        return z3.fpGT(x, y)
    if op == '>=':
        return z3.fpGEQ(x, y)
    raise EngineError('float cmp ' + op)


def fneg(a):
    if is_conc(a):
        return FV(a.w, -a.v)
    if is_real(a):
        return FV(a.w, -a.v)
    return FV(a.w, z3.fpNeg(a.v))


def fabs(a):
    if is_conc(a):
        return FV(a.w, abs(a.v))
    if is_real(a):
        return FV(a.w, z3.If(a.v >= 0, a.v, -a.v))
    return FV(a.w, z3.fpAbs(a.v))


def _round_int(a, rm, pyf):
    if is_conc(a):
        x = a.v
        if x != x or x in (math.inf, -math.inf):
            return FV(a.w, x)
        r = float(pyf(x))
        if r == 0:
            r = math.copysign(0.0, x)
        return FV(a.w, r)
    if is_real(a):
        fl = z3.ToReal(z3.ToInt(a.v))
        if rm is RTN:
            return FV(a.w, fl)
        if rm is RTP:
            return FV(a.w, z3.If(fl == a.v, fl, fl + 1))
        return FV(a.w, z3.If(a.v >= 0, fl, z3.If(fl == a.v, fl, fl + 1)))
    return FV(a.w, z3.fpRoundToIntegral(rm, a.v))


def ffloor(a):
    return _round_int(a, RTN, math.floor)


def fceil(a):
    return _round_int(a, RTP, math.ceil)


def ftrunc(a):
    return _round_int(a, RTZ, math.trunc)


def fsqrt(a):
    if is_conc(a):
        x = a.v
        if x != x or x < 0:
            return FV(a.w, math.nan)
        if x == math.inf:
            return FV(a.w, x)
        return FV(a.w, rw(a.w, math.sqrt(x)))
    if is_real(a):
        # one square-root variable per argument term (the term is kept alive by the memo, so
        # its AST id cannot be recycled): sqrt of syntactically equal arguments is one value
        memo = CTX.uf.setdefault('sqrt-memo', {})
        hit = memo.get(a.v.get_id())
        if hit is not None and hit[0].eq(a.v):
            s = hit[1]
        else:
            s = CTX.fresh('sqrt', z3.RealSort())
            memo[a.v.get_id()] = (a.v, s)
        CTX.pending.append(z3.And(s >= 0, s * s == a.v))
        CTX.assumptions.add('real reading: sqrt arguments are non-negative')
        return FV(a.w, _round_real(s, a.w))
    return FV(a.w, z3.fpSqrt(RNE, a.v))


def fconv(a, w):
    if a.w == w:
        return a
    if is_conc(a):
        return FV(w, rw(w, a.v))
    if is_real(a):
        if w < a.w:
            return FV(w, _round_real(a.v, w))
        # widening is exact; normalise the term here (conversions are few): values that went
        # through an affine map and back (pixel -> viewBox) become the original variable again
        return FV(w, z3.simplify(a.v, som=True) if CTX.mode in ('X', 'Rx') else a.v)
    return FV(w, z3.fpFPToFP(RNE, a.v, sort_of(w)))


def ffrombits(w, b):
    """b: python int or BitVec of width w."""
    if isinstance(b, int):
        return fconst_bits(w, b)
    if CTX.mode != 'B':
        raise EngineError('Float%dfrombits of a symbolic value in a real reading' % w)
    return FV(w, z3.fpBVToFP(b, sort_of(w)), b)


def fbits(a):
    """IEEE bits of a: python int or BitVec term (may add a side constraint)."""
    if a.bits is not None:
        return a.bits
    if is_conc(a):
        return bits_of_py(a.w, a.v)
    if is_real(a):
        raise EngineError('Float%dbits in a real reading' % a.w)
    b = CTX.fresh('fbits', z3.BitVecSort(a.w))
    CTX.pending.append(z3.fpBVToFP(b, sort_of(a.w)) == a.v)
    return b


def _wrap(x, bits, signed):
    x &= (1 << bits) - 1
    if signed and x >> (bits - 1):
        x -= 1 << bits
    return x


def f2i(a, bits, signed):
    """Go float->integer conversion with amd64 semantics for out of range / NaN.
    Returns python int (value in the target type's range) or BitVec(bits)."""
    if signed and bits == 64:
        via = 64
    elif not signed and bits == 64:
        via = 'u64'
    elif not signed and bits == 32:
        via = 64
    else:
        via = 32
    if is_conc(a):
        x = a.v

        def cvt(x, n):
            if x != x or x in (math.inf, -math.inf):
                return -(1 << (n - 1))
            t = math.trunc(x)
            if t < -(1 << (n - 1)) or t >= (1 << (n - 1)):
                return -(1 << (n - 1))
            return t
        if via == 'u64':
            if x < 9223372036854775808.0:
                r = cvt(x, 64)
            else:
                r = cvt(x - 9223372036854775808.0, 64) ^ -(1 << 63)
            return _wrap(r, 64, False)
        r = cvt(x, via)
        return _wrap(r, bits, signed)
    if is_real(a):
        raise EngineError('float->int conversion in a real reading')
    s = sort_of(a.w)

    def cvt_t(t, n):
        # in range iff trunc(t) in [-2^(n-1), 2^(n-1)); NaN fails both comparisons.
        lo = fpval(a.w, float(-(2 ** (n - 1))))
        hi = fpval(a.w, float(2 ** (n - 1)))
        inr = z3.And(z3.fpGEQ(z3.fpRoundToIntegral(RTZ, t), lo), z3.fpLT(t, hi))
        return z3.If(inr, z3.fpToSBV(RTZ, t, z3.BitVecSort(n)), z3.BitVecVal(1 << (n - 1), n))
    if via == 'u64':
        two63 = fpval(a.w, 9223372036854775808.0)
        r = z3.If(z3.fpLT(a.v, two63), cvt_t(a.v, 64),
                  cvt_t(z3.fpSub(RNE, a.v, two63), 64) ^ z3.BitVecVal(1 << 63, 64))
        return r
    r = cvt_t(a.v, via)
    if via > bits:
        r = z3.Extract(bits - 1, 0, r)
    return r


def i2f(x, xbits, xsigned, w):
    """integer (python int or BitVec(xbits)) -> float of width w."""
    if isinstance(x, int):
        if abs(x) < (1 << 53):
            return FV(w, rw(w, float(x)))
        fr = Fraction(x)
        # exact rounding via z3 for big values
        t = z3.simplify(z3.fpSignedToFP(RNE, z3.BitVecVal(x, 72), sort_of(w)))
        return FV(w, _fp_numeral_to_py(t, w))
    if CTX.mode != 'B':
        raise EngineError('symbolic int->float in a real reading')
    if xsigned:
        return FV(w, z3.fpSignedToFP(RNE, x, sort_of(w)))
    return FV(w, z3.fpUnsignedToFP(RNE, x, sort_of(w)))


def _fp_numeral_to_py(t, w):
    if z3.is_fprm_value(t):
        raise EngineError('rm')
    if t.isNaN():
        return math.nan
    if t.isInf():
        return -math.inf if t.isNegative() else math.inf
    s = 1 if t.sign() else 0
    e = t.exponent_as_long(biased=True)
    m = t.significand_as_long()
    if w == 32:
        return py_of_bits(32, (s << 31) | (e << 23) | m)
    return py_of_bits(64, (s << 63) | (e << 52) | m)


def model_float(model, a):
    """evaluate FV under a model -> python float (for diagnostics)."""
    if is_conc(a):
        return a.v
    v = model.eval(a.v, model_completion=True)
    if z3.is_fp(v):
        try:
            return _fp_numeral_to_py(v, a.w)
        except Exception:
            return None
    return v


def feq_bits(a, b):
    """'same float value' as SMT = on FP sort (NaN = NaN, +0 != -0)."""
    mode, x, y = _coerce(a, b)
    if mode == 'c':
        if x != x and y != y:
            return True
        return x == y and math.copysign(1, x) == math.copysign(1, y)
    return x == y


def isnan(a):
    if is_conc(a):
        return a.v != a.v
    if is_real(a):
        return False
    return z3.fpIsNaN(a.v)


def isinf(a):
    if is_conc(a):
        return a.v in (math.inf, -math.inf)
    if is_real(a):
        return False
    return z3.fpIsInf(a.v)
