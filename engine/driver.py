"""check driver: export SSA from /repo's working tree, explore the harnesses of a
property symbolically, discharge the obligations, replay models natively,
write evidence."""
import argparse
import hashlib
import importlib.util
import itertools
import json
import multiprocessing as mp
import os
import re
import shutil
import subprocess
import sys
import tempfile
import time
import traceback

HERE = os.path.dirname(os.path.abspath(__file__))
ROOT = os.path.dirname(HERE)
sys.path.insert(0, HERE)

import z3  # noqa: E402

import ir  # noqa: E402
import symex  # noqa: E402
import stubs  # noqa: E402,F401
import solve  # noqa: E402
import fpops  # noqa: E402

REPO = os.environ.get('VERIF_REPO', '/repo')
GOENV = dict(os.environ, GOFLAGS='-mod=mod', GOPROXY='off', GOSUMDB='off', GOTOOLCHAIN='local')

ALLOW = 'github.com/reactivego/ivg/...,vph/...,image/color,image,strings,bytes,internal/stringslite,internal/bytealg,io,errors,encoding/binary,encoding/hex,math/bits,unicode/utf8,golang.org/x/image/math/f32'
INITS = 'github.com/reactivego/ivg/...,vph/...,image/color,errors,io,encoding/binary,encoding/hex'

DEFAULT_MERGE = [
    'github.com/reactivego/ivg.Is1', 'github.com/reactivego/ivg.Is1$1', 'github.com/reactivego/ivg.Is2',
    'github.com/reactivego/ivg.Is2$1', 'github.com/reactivego/ivg.Is3', 'github.com/reactivego/ivg.ValidAlphaPremulColor',
    'github.com/reactivego/ivg.ValidGradient', 'github.com/reactivego/ivg.DecodeColor1',
    '(github.com/reactivego/ivg.Color).Resolve', '(github.com/reactivego/ivg.Color).Encode1',
    '(github.com/reactivego/ivg.Color).Encode2', '(github.com/reactivego/ivg.Color).Encode3Direct',
    '(github.com/reactivego/ivg.Color).Encode4', '(github.com/reactivego/ivg.Color).Encode3Indirect',
    '(github.com/reactivego/ivg.Color).Is1', '(github.com/reactivego/ivg.Color).Is2', '(github.com/reactivego/ivg.Color).Is3',
    '(github.com/reactivego/ivg.Color).RGBA',
    'github.com/reactivego/ivg/decode.isNaNOrInfinity',
    '(github.com/reactivego/ivg/render.Spread).Clamp',
    'vph/ref.Color1', 'vph/ref.digit', 'vph/ref.Resolve1',
]

PROG = None
CFG = None
ARGS = None
WORK = None
OVERLAY = None


def log(*a):
    print(*a, file=sys.stderr, flush=True)


def build_overlay(work, tags=()):
    """overlay/<pkg>/zz_vp.go is injected for every property; overlay/<pkg>/zz_vp_<tag>.go only
    for the properties whose props file names the tag in OVERLAY (so that a change to an
    unexported function one wrapper calls cannot take the other properties' checks down)."""
    rep = {}
    ovdir = os.path.join(ROOT, 'overlay')
    for pkg in sorted(os.listdir(ovdir)):
        d = os.path.join(ovdir, pkg)
        if not os.path.isdir(d):
            continue
        for f in sorted(os.listdir(d)):
            if not f.endswith('.go'):
                continue
            if f != 'zz_vp.go' and not (f.startswith('zz_vp_') and f[6:-3] in tags):
                continue
            sub = '' if pkg == 'ivg' else pkg.replace('__', '/')
            rep[os.path.join(REPO, sub, f)] = os.path.join(d, f)
    path = os.path.join(work, 'overlay.json')
    with open(path, 'w') as f:
        json.dump({'Replace': rep}, f)
    return path


MODFILE = None


def alt_modfile(work):
    """VERIF_REPO != /repo (development only: evaluating changes on a scratch copy without
    touching /repo): an alternative go.mod for the harness module whose replace directive
    points at that copy (go build -modfile)."""
    global MODFILE
    if REPO == '/repo':
        return None
    src = open(os.path.join(ROOT, 'harness', 'go.mod')).read().replace('=> /repo', '=> ' + REPO)
    MODFILE = os.path.join(work, 'alt.mod')
    open(MODFILE, 'w').write(src)
    shutil.copy(os.path.join(ROOT, 'harness', 'go.sum'), os.path.join(work, 'alt.sum'))
    return MODFILE


def export(work, overlay, debug='', pkgs='./...'):
    out = os.path.join(work, 'ssa.json')
    exe = os.path.join(ROOT, 'bin', 'ssaexport')
    src = os.path.join(ROOT, 'tools', 'ssaexport', 'main.go')
    if not os.path.exists(exe) or os.path.getmtime(src) > os.path.getmtime(exe):
        r = subprocess.run(['go', 'build', '-o', exe, '.'], cwd=os.path.join(ROOT, 'tools', 'ssaexport'), env=GOENV,
                           capture_output=True, text=True)
        if r.returncode != 0:
            log(r.stdout, r.stderr)
            raise SystemExit(2)
    cmd = [exe, '-dir', os.path.join(ROOT, 'harness'), '-overlay', overlay, '-out', out, '-allow', ALLOW, '-inits', INITS]
    cmd += ['-pkgs', pkgs]
    if debug:
        cmd += ['-debug', debug]
    if MODFILE:
        cmd += ['-modfile', MODFILE]
    r = subprocess.run(cmd, env=GOENV, capture_output=True, text=True)
    if r.returncode != 0:
        log('ssaexport failed:\n' + r.stdout + r.stderr)
        raise SystemExit(2)
    return out


def load_cfg(pid):
    path = os.path.join(ROOT, 'props', pid + '.py')
    if not os.path.exists(path):
        return {}
    spec = importlib.util.spec_from_file_location('prop_' + pid, path)
    m = importlib.util.module_from_spec(spec)
    spec.loader.exec_module(m)
    return m


def harness_cfg(cfgmod, name, tier):
    d = dict(getattr(cfgmod, 'DEFAULTS', {}) or {})
    h = (getattr(cfgmod, 'HARNESSES', {}) or {}).get(name, {})
    for k, v in h.items():
        if k in ('quick', 'thorough'):
            continue
        d[k] = v
    t = h.get(tier)
    if t is None and tier == 'thorough':
        t = h.get('quick')
    for k, v in (t or {}).items():
        d[k] = v
    return d


def run_native(pkgdir, cases, work, tag):
    """run replay cases natively; returns list of (kind, msg, labels, notes) per case."""
    path = os.path.join(work, 'replay_%s_%d.json' % (tag, os.getpid()))
    with open(path, 'w') as f:
        json.dump(cases, f)
    env = dict(GOENV, VP_REPLAY=path)
    cmd = ['go', 'test', '-count=1', '-vet=off', '-overlay', OVERLAY] + (['-modfile', MODFILE] if MODFILE else []) + ['-v', '-run', '^TestReplay$', '-timeout', '300s', './' + pkgdir + '/']
    r = subprocess.run(cmd, cwd=os.path.join(ROOT, 'harness'), env=env, capture_output=True, text=True)
    out = r.stdout + r.stderr
    res = [None] * len(cases)
    for line in out.split('\n'):
        m = re.match(r'VP-RESULT (\d+) (\w+) ?(.*)$', line)
        if m:
            i = int(m.group(1))
            rest = m.group(3)
            labels, notes = [], []
            mm = re.search(r' @@labels=(.*?) @@notes=(.*)$', rest)
            if mm:
                labels = [x for x in mm.group(1).split(',') if x]
                notes = [x for x in mm.group(2).split(',') if x]
                rest = rest[:mm.start()]
            res[i] = (m.group(2), rest, labels, notes)
    if any(x is None for x in res):
        log('native replay produced no result for some case:\n' + out[-3000:])
    return res, out


def values_to_case(harness_short, values, choices, params, presets=None):
    vals = {}
    for k, v in (presets or {}).items():
        vals[k] = str(v)
    for k, v in values.items():
        if isinstance(v, tuple):
            continue
        vals[k] = str(v)
    for k, v in choices.items():
        vals[k] = str(v)
    return {'harness': harness_short, 'values': vals, 'params': params}


def eval_pred(pred, nondet):
    """known-finding predicate: python expression over nondet names -> z3 Bool."""
    env = {}
    for k, (kind, bits, term) in nondet.items():
        nm = re.sub(r'[^A-Za-z0-9_]', '_', k)
        env[nm] = term
    env.update(ULT=z3.ULT, ULE=z3.ULE, UGT=z3.UGT, UGE=z3.UGE, And=z3.And, Or=z3.Or, Not=z3.Not, Extract=z3.Extract,
               LShR=z3.LShR, URem=z3.URem, UDiv=z3.UDiv, If=z3.If, BitVecVal=z3.BitVecVal, ZeroExt=z3.ZeroExt)
    return eval(pred, {'__builtins__': {}}, env)


class JobTimeout(Exception):
    pass


def _alarm(signum, frame):
    raise JobTimeout('job wall-clock budget exceeded')


def job(j):
    """worker: explore one harness (with preset choices) and discharge."""
    import signal
    signal.signal(signal.SIGALRM, _alarm)
    signal.alarm(int(j['cfg'].get('job_timeout_s', 900 if ARGS.tier == 'quick' else 3600)))
    try:
        return job_inner(j)
    except Exception as e:
        return dict(harness=j['harness'], presets=j['presets'] if len(j['presets']) < 8 else {'preset': j.get('tag', '')},
                    error='%s: %s' % (type(e).__name__, e), tb=traceback.format_exc())
    finally:
        signal.alarm(0)


def job_inner(j):
    t_start = time.time()
    hname = j['harness']
    hc = j['cfg']
    fpops.CTX.mode = hc.get('mode', 'B')
    fpops.CTX.pending = []
    fpops.CTX.assumptions = set()
    fpops.CTX.range_checks = []
    opts = dict(hc.get('opts', {}))
    opts['merge'] = list(hc.get('merge', [])) + ([] if hc.get('no_default_merge') else DEFAULT_MERGE)
    ex = symex.Exec(PROG, params=hc.get('params', {}), presets=j['presets'], opts=opts)
    ex.gobj = BASE_EX.gobj
    ex.base = BASE_EX.base
    ex.global_objs = BASE_EX.global_objs
    ex.init_mode = False
    budget_hit = False
    engine_err = None
    try:
        finished = ex.run_harness(hname)
    except fpops.EngineError as e:
        # code the executor has no model for (typically introduced by a change): no verdict from
        # the symbolic side.  If the harness has an inputs label and native-oracle witnesses,
        # those are still drawn (a natively reproduced failure is a violation whatever the
        # executor could not do); the case itself stays an engine error (exit 2 unless violated).
        if not hc.get('oracle') or getattr(ex, 'entry', None) is None or hc.get('_hunt'):
            raise
        engine_err = '%s: %s' % (type(e).__name__, e)
        finished = []
        ex.res.obligations = []
    except JobTimeout:
        # exploration did not finish: discharge what was collected so far (a violation found
        # on an explored path is still a violation); the case as a whole stays inconclusive
        if hc.get('_hunt'):
            raise
        finished = []
        budget_hit = True
        import signal
        signal.alarm(int(hc.get('discharge_after_timeout_s', 420)))
    res = ex.res
    short = hname.split('.H_')[-1]
    pkgdir = hname.split('/')[1].split('.')[0]
    findings = [f for f in j['known'] if f.get('harness') in (short, None, '*')]
    obs = []
    inproc_ms = hc.get('inproc_ms', 8000)
    ext_s = hc.get('ext_s', 60 if ARGS.tier == 'quick' else 300)
    # group identical (label, pc, neg) obligations
    seen = {}
    confirmed = {}
    nsolve = 0
    tsolve = 0.0
    for ob in res.obligations:
        if budget_hit == 'discharge':
            break
        try:
            assertions = list(ob.pc) + ([ob.neg] if ob.neg is not None else [])
            key = hashlib.sha1((hname + '|' + ob.label + '|' + json.dumps(ob.choices, sort_keys=True) + '|' + '\n'.join(a.sexpr() for a in assertions)).encode()).hexdigest()
            rec = dict(label=ob.label, kind=ob.kind, hash=key[:12], size=sum(len(a.sexpr()) for a in assertions))
            if key in seen:
                rec.update(seen[key])
                rec.update(label=ob.label, solver='dedup', time=0.0, dup=True)
                obs.append(rec)
                continue
            excluded = []
            if hc.get('_hunt') and (ob.kind not in ('assert', 'panic') or any(o.get('verdict') == 'violation' for o in obs)):
                continue   # bug hunting only: assertions, and one reproduced violation is enough
            if ob.kind == 'unwind':
                # unwinding assertion failed: the bound was too small to finish this path.
                # Never a violation, never success: inconclusive.
                rec.update(verdict='unknown', solver='unwind', time=0.0)
                seen[key] = rec
                obs.append(rec)
                continue
            while True:
                r = solve.solve(list(ob.pc) + excluded, ob.neg, ob.nondet, inproc_ms=inproc_ms, ext_s=ext_s,
                                solvers=hc.get('solvers'), workdir=WORK, force_ext=hc.get('force_ext', False))
                nsolve += 1
                tsolve += r['time']
                rec.update(verdict=r['verdict'], solver=r['solver'], time=round(r['time'], 3))
                if r['verdict'] != 'sat':
                    if excluded and r['verdict'] == 'unsat':
                        rec['verdict'] = 'known-only'
                    break
                vals = dict(r['values'])
                # values of nondets missing from an external model default to 0
                for k, (kind, bits, term) in ob.nondet.items():
                    vals.setdefault(k, 0)
                case = values_to_case(short, vals, ob.choices, hc.get('params', {}), j['presets'])
                rec['case'] = case
                # which known finding (if any) does the model match?
                hit = None
                for f in findings:
                    if f.get('label') and f['label'] not in ob.label:
                        continue
                    try:
                        p = eval_pred(f['predicate'], ob.nondet) if f.get('predicate') else z3.BoolVal(True)
                    except Exception as e:
                        rec['pred_error'] = str(e)
                        continue
                    s = z3.Solver()
                    for k, (kind, bits, term) in ob.nondet.items():
                        if kind != 'real' and k in vals:
                            s.add(term == vals[k])
                    s.add(p)
                    if s.check() == z3.sat:
                        hit = (f, p)
                        break
                ckey = (ob.label, hit[0]['id'] if hit else None)
                if ckey in confirmed:
                    # the same assertion (and the same finding class) was already
                    # reproduced natively in this job: do not replay again
                    reproduced = True
                    rec['native'] = ['fail', 'same assertion already reproduced natively on another path']
                    nat = [rec['native']]
                else:
                    nat, out = run_native(pkgdir, [case], WORK, 'cx')
                    rec['native'] = nat[0][:2] if nat[0] else None
                    reproduced = nat[0] is not None and nat[0][0] in ('fail', 'panic')
                    if ob.kind == 'panic':
                        reproduced = nat[0] is not None and nat[0][0] == 'panic'
                    if ob.kind == 'frame':
                        reproduced = True  # decided by the executor's own monitor
                    if reproduced:
                        confirmed[ckey] = True
                if not reproduced and ob.kind == 'range' and not rec.get('combined'):
                    # an overflow witness whose replay happens to pass: look for a witness where a
                    # second operation on the same path condition overflows as well (two cooperating
                    # overflows are what turns a comparison of two products around)
                    rec['combined'] = True
                    sibs = [o for o in res.obligations if o.kind == 'range' and o is not ob and len(o.pc) == len(ob.pc)
                            and all(a.eq(b) for a, b in zip(o.pc, ob.pc))]
                    found = False
                    for sib in sibs[:6]:
                        r2 = solve.solve(list(ob.pc) + [ob.neg], sib.neg, ob.nondet, inproc_ms=inproc_ms, ext_s=min(ext_s, 30),
                                         solvers=hc.get('solvers'), workdir=WORK)
                        nsolve += 1
                        tsolve += r2['time']
                        if r2['verdict'] != 'sat':
                            continue
                        vals2 = dict(r2['values'])
                        for k, (kind, bits, term) in ob.nondet.items():
                            vals2.setdefault(k, 0)
                        case2 = values_to_case(short, vals2, ob.choices, hc.get('params', {}), j['presets'])
                        nat2, out2 = run_native(pkgdir, [case2], WORK, 'cx')
                        if nat2[0] is not None and nat2[0][0] in ('fail', 'panic'):
                            rec['case'] = case2
                            rec['native'] = nat2[0][:2]
                            nat = nat2
                            reproduced = True
                            found = True
                            break
                    if not found:
                        rec['verdict'] = 'spurious'
                        break
                elif not reproduced:
                    rec['verdict'] = 'spurious'
                    break
                if hit is None:
                    rec['verdict'] = 'violation'
                    rec['native_msg'] = nat[0][1]
                    break
                rec.setdefault('known', []).append(hit[0]['id'])
                excluded.append(z3.Not(hit[1]))
                if len(excluded) > 8:
                    rec['verdict'] = 'unknown'
                    break
                continue
            seen[key] = rec
            obs.append(rec)
        except JobTimeout:
            budget_hit = 'discharge'

    # An overflow witness of the rounded-real reading whose replay passes leaves the reading
    # without a verdict for the inputs on which some operation overflows.  Hunt for a
    # violation on the same harness bit-exactly (float32 semantics incl. Inf/NaN): a model
    # that reproduces natively is a violation; anything else leaves the obligation inconclusive.
    hunt_notes = []
    if hc.get('mode') == 'R' and not hc.get('_hunt') and any(o['kind'] == 'range' and o['verdict'] in ('spurious', 'unknown') for o in obs):
        t_h = time.time()
        j2 = dict(j, cfg=dict(hc, mode='B', _hunt=True, validate=0, inproc_ms=4000, ext_s=min(ext_s, 90)))
        saved = (fpops.CTX.mode, fpops.CTX.pending, fpops.CTX.assumptions, fpops.CTX.range_checks)
        try:
            r2 = job_inner(j2)
            nv = 0
            for o in r2['obligations']:
                if o['verdict'] == 'violation':
                    o = dict(o, label=o['label'] + ' [bit-exact hunt in the overflow region of the rounded-real reading]')
                    obs.append(o)
                    nv += 1
            nsolve += r2['solver_calls']
            tsolve += r2['solver_time']
            hunt_notes.append('overflow witness in the rounded-real reading: bit-exact hunt on the same harness: %d obligations, %d violations reproduced natively, %.1fs'
                              % (len(r2['obligations']), nv, time.time() - t_h))
        except JobTimeout:
            raise
        except Exception as e:
            hunt_notes.append('bit-exact hunt failed: %s: %s' % (type(e).__name__, e))
        finally:
            fpops.CTX.mode, fpops.CTX.pending, fpops.CTX.assumptions, fpops.CTX.range_checks = saved
    # Path witnesses with the native harness as oracle (harnesses whose native assertions are
    # tolerance-robust, e.g. exact-real readings whose violated obligations the solver cannot
    # model): the solver supplies a model of the path condition of some explored paths, the
    # native harness runs the real code on it; a failing assertion there is a reproduced
    # violation.  Bug finding only: nothing is claimed from witnesses that pass.
    nor = int(hc.get('oracle', 0))
    if nor and not hc.get('_hunt') and not any(o.get('verdict') == 'violation' for o in obs):
        cases = []
        t_o = time.time()
        entry = getattr(ex, 'entry', None)
        if entry is not None:
            # witnesses of the harness's own input assumptions, spread by random cells: each
            # real input is confined to a random sub-interval of [-64, 64] (dropped if that makes
            # the assumptions unsatisfiable); the solver completes the assignment
            import random
            rnd = random.Random(hashlib.sha1((hname + json.dumps(j['presets'], sort_keys=True)).encode()).hexdigest())
            epc, end, ech = entry
            reals = [(k, t) for k, (kind, bits, t) in sorted(end.items()) if kind == 'real']
            fbits = [(k, bits, t) for k, (kind, bits, t) in sorted(end.items()) if kind == 'fbits']
            ints = [(k, bits, t) for k, (kind, bits, t) in sorted(end.items()) if kind == 'int']
            for _ in range(nor * 3):
                if len(cases) >= nor or time.time() - t_o > 60:
                    break
                so = z3.Solver()
                so.set('timeout', 2000)
                for c in epc:
                    so.add(c)
                # bit-exact readings: each float input is pinned to a value of a random class
                # (zero, small integer, moderate, tiny, huge, NaN/Inf), each integer input to a
                # random value with probability 1/2; a pin that contradicts the assumptions is dropped
                for k, bits, t in fbits:
                    cls = rnd.randrange(8)
                    x = [0.0, -0.0, float(rnd.randint(-8, 8)), rnd.uniform(-64, 64), rnd.uniform(-64, 64), rnd.uniform(-1, 1) * 2.0 ** -rnd.randint(20, 120),
                         rnd.uniform(-1, 1) * 2.0 ** rnd.randint(20, 120), rnd.choice([float('nan'), float('inf'), float('-inf')])][cls]
                    so.push()
                    so.add(t == z3.BitVecVal(fpops.bits_of_py(bits, fpops.rw(bits, x)), bits))
                    if so.check() != z3.sat:
                        so.pop()
                for k, bits, t in ints:
                    if rnd.random() < 0.5:
                        so.push()
                        so.add(t == z3.BitVecVal(rnd.getrandbits(bits) if rnd.random() < 0.5 else rnd.randrange(4), bits))
                        if so.check() != z3.sat:
                            so.pop()
                for k, t in reals:
                    w = rnd.choice([0.5, 2.0, 8.0, 32.0])
                    lo = rnd.uniform(-64, 64 - w)
                    sc = rnd.choice([1.0, 1.0, 1.0, 2.0 ** rnd.randint(8, 40), 2.0 ** rnd.randint(40, 95), 2.0 ** -rnd.randint(8, 60)])
                    w, lo = w * sc, lo * sc     # some cells far from the unit scale (dropped where the assumptions exclude them)
                    so.push()
                    so.add(z3.And(t >= z3.RealVal(repr(lo)), t <= z3.RealVal(repr(lo + w))))
                    if so.check() != z3.sat:
                        so.pop()     # this cell contradicts the assumptions: leave the input free
                if so.check() != z3.sat:
                    continue
                vals = solve.model_values(so.model(), end)
                cases.append(values_to_case(short, vals, ech, hc.get('params', {}), j['presets']))
        else:
            sts = list(getattr(ex, 'finished_all', []))
            stepo = max(1, len(sts) // nor)
            for st in sts[::stepo]:
                if len(cases) >= nor or time.time() - t_o > 60:
                    break
                try:
                    if ex.sat(st, None, want_model=True) == 'sat' and st.model is not None:
                        vals = solve.model_values(st.model, st.nondet)
                        cases.append(values_to_case(short, vals, st.choices, hc.get('params', {}), j['presets']))
                except JobTimeout:
                    break
                except Exception:
                    continue
        if cases:
            nat, out = run_native(pkgdir, cases, WORK, 'or')
            nfail = 0
            for case, n in zip(cases, nat):
                if n is not None and n[0] == 'fail':
                    nfail += 1
                    h = hashlib.sha1(json.dumps(case, sort_keys=True).encode()).hexdigest()[:12]
                    obs.append(dict(label='path witness fails the native harness: ' + n[1], kind='witness', hash=h, size=0, verdict='violation',
                                    solver='model of a path condition + native oracle', time=0.0, case=case, native=list(n[:2]), native_msg=n[1]))
                    break
            hunt_notes.append('native oracle: %d path witnesses (models of explored path conditions) run on the real code, %d failed; outcomes %s'
                              % (len(cases), nfail, json.dumps([(n[0], n[1][:60]) if n else None for n in nat])))
    # validation samples: a model of a few finished paths, to be replayed natively
    samples = []
    nval = hc.get('validate', 2)
    step = max(1, len(finished) // max(nval, 1))
    for st in finished[::step][:nval]:
        if ex.sat(st, None) == 'sat' and st.model is not None:
            vals = solve.model_values(st.model, st.nondet)
            notes = []
            for (lab, term) in getattr(st, 'notes', []):
                if isinstance(term, (int, bool)):
                    notes.append('%s=%d' % (lab, int(term)))
                else:
                    v = st.model.eval(term, model_completion=True)
                    notes.append('%s=%d' % (lab, v.as_long()))
            samples.append(dict(case=values_to_case(short, vals, st.choices, hc.get('params', {}), j['presets']),
                                labels=list(getattr(st, 'labels', [])), notes=notes))
    return dict(harness=hname, presets=j['presets'] if len(j['presets']) < 8 else {'preset': j.get('tag', 'case')}, tag=j.get('tag', ''), paths=res.paths, ended=res.ended, steps=res.steps,
                solver_calls=res.solver_calls + nsolve, solver_time=res.solver_time + tsolve, funcs=res.funcs,
                labels=sorted(res.labels), reached=res.reached, folded=res.folded, obligations=obs,
                stubs=sorted(res.stubs), assumptions=sorted(fpops.CTX.assumptions | res.assumptions), notes=sorted(set(res.notes)) + hunt_notes,
                forks=res.forks, merges=res.merges, samples=samples, params=getattr(res, 'params_used', {}),
                mode=hc.get('mode', 'B'), wall=time.time() - t_start, pkgdir=pkgdir, timed_out=bool(budget_hit), engine_error=engine_err)


BASE_EX = None


def main():
    global PROG, CFG, ARGS, WORK, OVERLAY, BASE_EX
    ap = argparse.ArgumentParser()
    ap.add_argument('prop')
    ap.add_argument('--tier', default=os.environ.get('VERIF_TIER', 'quick'))
    ap.add_argument('--only', default='')
    ap.add_argument('--jobs', type=int, default=int(os.environ.get('VERIF_JOBS', '16')))
    ap.add_argument('--strict', action='store_true')
    ap.add_argument('--keep', action='store_true')
    ap.add_argument('--verbose', '-v', action='store_true')
    ap.add_argument('--no-evidence', action='store_true')
    ap.add_argument('--replay', default='')
    ARGS = ap.parse_args()
    if ARGS.tier not in ('quick', 'thorough'):
        ARGS.tier = 'quick'
    seed = int(os.environ.get('VERIF_SEED', '0') or 0)
    pid = ARGS.prop
    t0 = time.time()
    os.makedirs(os.path.join(ROOT, '.work'), exist_ok=True)
    WORK = tempfile.mkdtemp(prefix=pid + '-', dir=os.path.join(ROOT, '.work'))
    rc = 2
    try:
        rc = run(pid, seed, t0)
    finally:
        if not ARGS.keep:
            shutil.rmtree(WORK, ignore_errors=True)
    sys.exit(rc)


def run(pid, seed, t0):
    global PROG, OVERLAY, BASE_EX
    OVERLAY = build_overlay(WORK, tuple(getattr(load_cfg(pid), 'OVERLAY', ()) or ()))
    alt_modfile(WORK)
    if ARGS.replay:
        return do_replay(pid, ARGS.replay)
    if not ARGS.only:
        shutil.rmtree(os.path.join(ROOT, 'replays', pid), ignore_errors=True)
    cfgmod = load_cfg(pid)
    # only the property's own harness package (and what it imports) is loaded, so that a
    # change that breaks another property's overlay wrapper leaves this check unaffected
    ssa = export(WORK, OVERLAY, debug=getattr(cfgmod, 'DEBUG_PKGS', ''), pkgs='./' + pid.lower())
    t_export = time.time() - t0
    PROG = ir.Program(ssa)
    pkg = 'vph/' + pid.lower()
    hs = sorted(f for f in PROG.funcs if f.startswith(pkg + '.H_') and '$' not in f)
    if ARGS.only:
        hs = [h for h in hs if re.search(ARGS.only, h)]
    if not hs:
        log('no harnesses for', pid)
        return 2
    BASE_EX = symex.Exec(PROG)
    BASE_EX.setup()
    kf_path = os.path.join(ROOT, 'known_findings.json')
    known = []
    if os.path.exists(kf_path):
        kf = json.load(open(kf_path))
        known = [f for f in kf.get('findings', []) if f.get('property') == pid and f.get('status', 'open') == 'open']
    jobs = []
    for h in hs:
        short = h.split('.H_')[-1]
        hc = harness_cfg(cfgmod, short, ARGS.tier)
        if hc.get('skip'):
            continue
        split = hc.get('split', {})
        names = sorted(split)
        cases = hc.get('cases') or [dict()]
        for case in cases:
            hc2 = dict(hc)
            hc2.pop('cases', None)
            if case.get('params'):
                hc2['params'] = dict(hc.get('params', {}), **case['params'])
            for combo in itertools.product(*[range(split[n]) for n in names]):
                pres = dict(case.get('presets', {}))
                pres.update(zip(names, combo))
                jobs.append(dict(harness=h, presets=pres, cfg=hc2, known=known, tag=case.get('tag', '')))
    order = list(range(len(jobs)))
    results = []
    ctx = mp.get_context('fork')
    with ctx.Pool(min(ARGS.jobs, max(1, len(jobs)))) as pool:
        for r in pool.imap_unordered(job, jobs, chunksize=1):
            results.append(r)
            if 'error' in r:
                log('ENGINE ERROR in %s %s: %s\n%s' % (r['harness'], r['presets'], r['error'], r.get('tb', '')))
            else:
                nv = sum(1 for o in r['obligations'] if o['verdict'] == 'violation')
                nu = sum(1 for o in r['obligations'] if o['verdict'] in ('unknown', 'spurious'))
                log('  %-40s %-18s paths=%-5d obl=%-4d viol=%d inconcl=%d %.1fs' % (
                    r['harness'].split('.H_')[-1], (r.get('tag') or json.dumps(r['presets']))[:18] if r['presets'] else '', r['paths'],
                    len(r['obligations']), nv, nu, r['wall']))
                if ARGS.verbose:
                    for n in r['notes'][:10]:
                        log('      note: ' + n[:200])
                    for o in r['obligations']:
                        log('      %-9s %-9s %6.2fs %-10s %s' % (o['verdict'], o['solver'], o['time'], o['kind'], o['label'][:90]))
    return finish(pid, seed, t0, t_export, results, known)


def finish(pid, seed, t0, t_export, results, known):
    # a harness case that exceeds its wall-clock budget is a bound that was not reached:
    # inconclusive (nothing is claimed for it), not an engine failure
    timeouts = [r for r in results if ('error' in r and r['error'].startswith('JobTimeout')) or r.get('timed_out')]
    errors = [r for r in results if 'error' in r and not r['error'].startswith('JobTimeout')]
    errors += [dict(r, error=r['engine_error']) for r in results if r.get('engine_error')]
    good = [r for r in results if 'error' not in r]
    # native validation of sampled paths
    validated = 0
    val_fail = []
    bypkg = {}
    for r in good:
        for s in r['samples']:
            bypkg.setdefault(r['pkgdir'], []).append((r, s))
    for pkgdir, items in bypkg.items():
        cases = [s['case'] for (_, s) in items]
        nat, out = run_native(pkgdir, cases, WORK, 'val')
        for (r, s), n in zip(items, nat):
            if n is None:
                val_fail.append((r['harness'], 'no native result'))
                continue
            kind, msg, labels, notes = n
            if kind != 'pass':
                val_fail.append((r['harness'], 'native %s %s on a path the executor completed: %s' % (kind, msg, json.dumps(s['case']['values'])[:300])))
            elif labels != s['labels']:
                val_fail.append((r['harness'], 'label trace differs: native %s / symbolic %s' % (labels, s['labels'])))
            elif notes != s['notes']:
                val_fail.append((r['harness'], 'noted values differ: native %s / symbolic %s' % (notes, s['notes'])))
            else:
                validated += 1
    violations = []
    knowns = {}
    inconcl = []
    nobl = ndis = 0
    queries = 0
    solver_time = 0.0
    paths = 0
    funcs = {}
    vacuous = []
    samples = []
    by_solver = {}
    distinct = set()
    for r in good:
        paths += r['paths']
        queries += r['solver_calls']
        solver_time += r['solver_time']
        for f, n in r['funcs'].items():
            funcs[f] = funcs.get(f, 0) + n
        for lab in r['labels']:
            pass
        for o in r['obligations']:
            nobl += 1
            distinct.add(o['hash'])
            by_solver[o['solver']] = by_solver.get(o['solver'], 0) + 1
            if o['verdict'] in ('unsat',):
                ndis += 1
            elif o['verdict'] == 'known-only':
                ndis += 1
            elif o['verdict'] == 'violation':
                violations.append((r, o))
            else:
                inconcl.append((r, o))
            for k in o.get('known', []):
                knowns.setdefault(k, 0)
                knowns[k] += 1
    # vacuity: every label must be confirmed reachable in at least one job of its harness
    lab_all = {}
    for r in good:
        for lab in r['labels']:
            key = (r['harness'], lab)
            lab_all[key] = lab_all.get(key, False) or bool(r['reached'].get(lab))
    vacuous = [k for k, v in lab_all.items() if not v]
    noreach = [r['harness'] for r in good if not r['labels']]
    for r in good[:40]:
        for o in r['obligations'][:2]:
            if len(samples) < 12:
                samples.append(dict(harness=r['harness'], presets=r['presets'], obligation=o['label'], kind=o['kind'],
                                    verdict=o['verdict'], solver=o['solver'], time_s=o['time'], smt_size=o['size']))
    if not samples:
        for r in good[:10]:
            samples.append(dict(harness=r['harness'], presets=r['presets'], paths=r['paths'], folded=r['folded'],
                                note='all assertions closed by constant folding on concrete paths'))
    rc = 0
    replay_dir = os.path.join(ROOT, 'replays', pid)
    for (r, o) in violations:
        if o.get('dup'):
            continue
        os.makedirs(replay_dir, exist_ok=True)
        path = os.path.join(replay_dir, o['hash'] + '.json')
        with open(path, 'w') as f:
            json.dump(dict(property=pid, harness=r['harness'], label=o['label'], kind=o['kind'], native=o.get('native'),
                           cases=[o['case']], pkgdir=r['pkgdir']), f, indent=1)
        print('VIOLATION property=%s replay=%s' % (pid, path))
        print('  harness %s: %s  [%s] %s' % (r['harness'], o['label'], (o.get('native_msg') or '')[:200], json.dumps(o['case']['values'])[:300]))
        rc = 1
    kf = {f['id']: f for f in known}
    for k in sorted(knowns):
        print('KNOWN-FINDING: property=%s %s' % (pid, kf[k]['what']))
    for (r, o) in inconcl:
        print('INCONCLUSIVE property=%s harness=%s obligation=%r verdict=%s %s' % (pid, r['harness'].split('.H_')[-1], o['label'], o['verdict'], (json.dumps(o.get('native')) + ' ' + json.dumps(o['case']['values'])[:600]) if o.get('case') else ''))
    for (h, lab) in vacuous:
        print('VACUOUS property=%s harness=%s label=%s never reached on a feasible path' % (pid, h, lab))
    for (h, why) in val_fail:
        print('ENGINE-MISMATCH property=%s harness=%s %s' % (pid, h, why))
    for r in errors:
        print('ENGINE-ERROR property=%s harness=%s %s' % (pid, r['harness'], r['error']))
    for r in timeouts:
        print('INCONCLUSIVE property=%s harness=%s case=%s wall-clock budget exceeded: nothing is claimed for this case'
              % (pid, r['harness'].split('.H_')[-1], json.dumps(r['presets'])))
    infra = bool(errors or vacuous or val_fail)
    if rc == 0 and infra:
        rc = 2
    if rc == 0 and ARGS.strict and (inconcl or timeouts):
        rc = 2
    wall = time.time() - t0
    tot_instr = sum(funcs.values())
    encoded = []
    for f in sorted(funcs, key=lambda x: -funcs[x]):
        if f.startswith('vph/') or f.endswith('.init'):
            continue
        fj = PROG.funcs.get(f, {})
        encoded.append(dict(func=f, pos=fj.get('pos', ''), ssa_hash=fj.get('hash', ''), instrs_executed=funcs[f]))
    params = {}
    for r in good:
        for k, v in r.get('params', {}).items():
            params.setdefault(r['harness'].split('.H_')[-1], {})[k] = v
    cfgmod = load_cfg(pid)
    ev = dict(
        property_id=pid, tier=ARGS.tier, seed=seed, level='model_checking',
        coverage=dict(
            states=max(paths, 1), transitions=max(queries, 1), traces_validated_against_impl=validated,
            samples=samples,
            obligations=nobl, discharged=ndis, inconclusive=len(inconcl) + len(timeouts),
            evaluations=max(nobl, 1), distinct_nontrivial=len(distinct),
            rule='one evaluation = one proof obligation (assertion, no-panic, frame or unwinding condition on one feasible path) sent to an SMT solver; '
                 'distinct = different SHA-1 of the SMT-LIB text; assertions closed by constant folding on concrete paths are counted separately (folded)',
            folded=sum(r['folded'] for r in good),
            exhaustive=False,
            harnesses=[dict(harness=r['harness'].split('.H_')[-1], presets=r['presets'], reading=r['mode'], paths=r['paths'],
                            ended=r['ended'], obligations=len(r['obligations']), forks=r['forks'],
                            instrs=r['steps'], wall_s=round(r['wall'], 2)) for r in sorted(good, key=lambda r: (r['harness'], json.dumps(r['presets'])))],
            bounds=dict(getattr(cfgmod, 'BOUNDS', {}) or {}, params=params),
            functions_encoded=encoded[:80], functions_encoded_count=len(encoded), ssa_instructions_executed=tot_instr,
            queries_by_solver=by_solver, solver_time_s=round(solver_time, 2), export_time_s=round(t_export, 2),
            cases_timed_out=[dict(harness=r['harness'].split('.H_')[-1], presets=r['presets']) for r in timeouts],
            known_findings_matched=sorted(knowns), vacuous_labels=[list(v) for v in vacuous],
            labels_reached=sorted(set('%s:%s' % (h.split('.H_')[-1], lab) for (h, lab), v in lab_all.items() if v)),
            stubs=sorted(set(s for r in good for s in r['stubs'])),
            notes=sorted(set(n for r in good for n in r['notes'])),
            outside=getattr(cfgmod, 'OUTSIDE', ''),
            explanation=getattr(cfgmod, 'EXPLANATION', ''),
        ),
        assumptions=sorted(set(a for r in good for a in r['assumptions'])) + list(getattr(cfgmod, 'ASSUMPTIONS', []) or []),
        wall_s=round(wall, 2), violations=len(violations),
    )
    if not ARGS.no_evidence and not ARGS.only:
        os.makedirs(os.path.join(ROOT, 'evidence'), exist_ok=True)
        with open(os.path.join(ROOT, 'evidence', pid + '.json'), 'w') as f:
            json.dump(ev, f, indent=1)
    print('%s tier=%s harness-jobs=%d paths=%d obligations=%d discharged=%d inconclusive=%d violations=%d known=%d validated-traces=%d wall=%.1fs rc=%d' % (
        pid, ARGS.tier, len(good), paths, nobl, ndis, len(inconcl) + len(timeouts), len(violations), len(knowns), validated, wall, rc))
    return rc


def do_replay(pid, path):
    d = json.load(open(path))
    nat, out = run_native(d['pkgdir'], d['cases'], WORK, 'replay')
    print(out)
    ok = all(n is not None and n[0] in ('fail', 'panic') for n in nat)
    return 1 if ok else 0


if __name__ == '__main__':
    main()
